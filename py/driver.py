#!/usr/bin/env python3
"""CPython side of world W5: executes harness-generated call scripts against the real compiled
bourse.core extension and answers with the value / exception class of every call and, where asked,
the complete Python-side observation of an object.  One JSON request per line on stdin, one JSON
response per line on stdout.  No randomness, no clock, no iteration over sets/dicts whose order matters."""
import json, sys, os

sys.path.insert(0, os.environ.get("VERIF_PYPKG_DIR", "/verif/run/pypkg"))
sys.path.insert(1, os.path.join(os.path.dirname(os.path.abspath(__file__)), "stubs"))
import bourse
from bourse import core
import bourse.data_processing as dp

def dec(a):
    if isinstance(a, str) and a.startswith("int:"):
        return int(a[4:])
    if isinstance(a, list):
        return [dec(x) for x in a]
    return a

def enc(v):
    # tuples -> lists, numpy arrays / scalars -> python
    if hasattr(v, "tolist"):
        return enc(v.tolist())
    if isinstance(v, (tuple, list)):
        return [enc(x) for x in v]
    if isinstance(v, dict):
        return {str(k): enc(x) for k, x in v.items()}
    if isinstance(v, bool) or v is None or isinstance(v, (int, str)):
        return v
    if isinstance(v, float):
        return v
    return repr(v)

def obs_book(b):
    return [b.ask_vol(), b.best_ask_vol(), enc(b.best_ask_vol_and_orders()), b.bid_vol(), b.best_bid_vol(),
            enc(b.best_bid_vol_and_orders()), enc(b.bid_ask()), enc(b.get_orders()), enc(b.get_trades())]

def obs_env(e):
    return [e.time, e.ask_vol, e.best_ask_vol, enc(e.best_ask_vol_and_orders), e.bid_vol, e.best_bid_vol,
            enc(e.best_bid_vol_and_orders), e.trade_vol, enc(e.bid_ask), enc(e.get_orders()), enc(e.get_trades()),
            enc(e.get_prices()), enc(e.get_volumes()), enc(e.get_touch_volumes()), enc(e.get_touch_order_counts()),
            enc(e.get_trade_volumes())]

def obs_numpy(e):
    return [enc(e.get_orders()), enc(e.get_trades())]

def observe(o):
    if isinstance(o, core.OrderBook):
        return obs_book(o)
    if isinstance(o, core.StepEnv):
        return obs_env(o)
    return obs_numpy(o)

OBJS = {}
# arrays handed out earlier (the object the caller holds, a private copy of what it held when it was handed out): a returned
# array belongs to the caller - what it holds must not change when the environment moves on, and what the caller writes into
# it must not show up in arrays handed out later
KEPT = []

def run(req):
    import numpy as np
    if req.get("reset"):
        OBJS.clear()
        del KEPT[:]
    objs = OBJS
    results = []
    for c in req["calls"]:
        k = c["k"]; args = dec(c.get("a", [])); res = None
        try:
            if k == "new_book":
                objs[c["o"]] = core.OrderBook(*args); val = None
            elif k == "new_env":
                objs[c["o"]] = core.StepEnv(*args); val = None
            elif k == "new_numpy":
                objs[c["o"]] = core.StepEnvNumpy(*args); val = None
            elif k == "load_book":
                objs[c["o"]] = core.order_book_from_json(*args); val = None
            elif k == "call":
                val = getattr(objs[c["o"]], c["m"])(*args)
            elif k == "bulk":
                n, tick, centre = args; b = objs[c["o"]]; val = 0
                for i in range(n):
                    bid = i % 2 == 0; kk = (i // 2) % 40
                    price = (centre - 1 - kk) * tick if bid else (centre + 1 + kk) * tick
                    val = b.place_order(bid, 1 + i % 9, i % 50, price)
            elif k == "prop":
                val = getattr(objs[c["o"]], c["m"])
            elif k == "df_orders":
                df = dp.orders_to_dataframe(objs[c["o"]].get_orders()); val = {"columns": list(df.columns), "rows": df.to_rows()}
            elif k == "df_trades":
                df = dp.trades_to_dataframe(objs[c["o"]].get_trades()); val = {"columns": list(df.columns), "rows": df.to_rows()}
            elif k == "np_limit_orders":
                sides, vols, ids, prices = args
                val = objs[c["o"]].submit_limit_orders((np.array(sides, dtype=bool), np.array(vols, dtype=np.uint32), np.array(ids, dtype=np.uint32), np.array(prices, dtype=np.uint32)))
            elif k == "np_cancellations":
                val = objs[c["o"]].submit_cancellations(np.array(args[0], dtype=np.uint64))
            elif k == "np_instructions":
                act, sides, vols, ids, prices, oids = args
                val = objs[c["o"]].submit_instructions((np.array(act, dtype=np.uint32), np.array(sides, dtype=bool), np.array(vols, dtype=np.uint32), np.array(ids, dtype=np.uint32), np.array(prices, dtype=np.uint32), np.array(oids, dtype=np.uint64)))
            else:
                raise RuntimeError("driver: unknown call kind " + k)
            res = {"r": enc(val)}
            for (held, was) in KEPT:
                if not np.array_equal(held, was):
                    res = {"e": "ReturnedArrayChangedLater", "msg": "an array returned by an earlier call no longer holds what it held: %s -> %s" % (was.tolist()[:9], held.tolist()[:9])}
                    del KEPT[:]
                    break
            if isinstance(val, np.ndarray) and "e" not in res:
                if val.flags.writeable and val.size > 0:
                    val += 1  # the caller scribbles into its array
                KEPT.append((val, val.copy()))
                del KEPT[:-6]
        except BaseException as e:  # PanicException derives from BaseException
            res = {"e": type(e).__name__, "msg": str(e)[:200]}
        if c.get("obs") and c["obs"] in objs:
            try:
                res["obs"] = observe(objs[c["obs"]])
            except BaseException as e:
                res["obs"] = {"e": type(e).__name__, "msg": str(e)[:200]}
        results.append(res)
    return {"id": req.get("id"), "results": results}

def main():
    out = sys.stdout
    out.write(json.dumps({"hello": True, "numpy": __import__("numpy").__version__, "python": sys.version.split()[0], "hashseed": os.environ.get("PYTHONHASHSEED")}) + "\n"); out.flush()
    for line in sys.stdin:
        line = line.strip()
        if not line:
            continue
        req = json.loads(line)
        out.write(json.dumps(run(req)) + "\n"); out.flush()

if __name__ == "__main__":
    main()
