#!/bin/sh
# Build the PyO3 extension from /repo's working tree (offline) and assemble an importable package
# directory /verif/run/pypkg/bourse (real python sources from /repo/src/bourse + core.so).
set -e
export CARGO_NET_OFFLINE=true
TGT="${VERIF_PY_TARGET_DIR:-/verif/target-py}"
mkdir -p /verif/run
REPO="${VERIF_REPO_DIR:-/repo}"
if ! (cd "$REPO" && CARGO_TARGET_DIR="$TGT" cargo build -p bourse --release --offline >/verif/run/build_py.$$.log 2>&1); then
    cat /verif/run/build_py.$$.log; rm -f /verif/run/build_py.$$.log
    echo "harness error: the bourse extension module failed to build"
    exit 2
fi
rm -f /verif/run/build_py.$$.log
PKG="${VERIF_PYPKG_DIR:-/verif/run/pypkg}"
rm -rf "$PKG.tmp.$$"; mkdir -p "$PKG.tmp.$$"
cp -r "$REPO/src/bourse" "$PKG.tmp.$$/bourse"
cp "$TGT/release/libbourse.so" "$PKG.tmp.$$/bourse/core.so"
rm -rf "$PKG"; mv "$PKG.tmp.$$" "$PKG"
