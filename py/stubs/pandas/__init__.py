"""Minimal stand-in for pandas (not installable offline): exactly the operations bourse.data_processing
performs - DataFrame.from_records(records, columns=...), df[col], Series.map(dict), df[col] = series."""
class Series:
    def __init__(self, values):
        self.values = list(values)
    def map(self, m):
        if isinstance(m, dict):
            return Series([m.get(v) for v in self.values])
        return Series([m(v) for v in self.values])
    def tolist(self):
        return list(self.values)
class DataFrame:
    def __init__(self, columns, data):
        self.columns = list(columns)
        self._data = {c: list(v) for c, v in zip(self.columns, data)}
    @classmethod
    def from_records(cls, records, columns=None):
        records = [tuple(r) for r in records]
        if columns is None:
            raise ValueError("stub pandas: columns required")
        columns = list(columns)
        for r in records:
            if len(r) != len(columns):
                raise ValueError("%d columns passed, passed data had %d columns" % (len(columns), len(r)))
        return cls(columns, [[r[i] for r in records] for i in range(len(columns))])
    def __getitem__(self, c):
        return Series(self._data[c])
    def __setitem__(self, c, s):
        vals = s.values if isinstance(s, Series) else list(s)
        if c not in self._data:
            self.columns.append(c)
        self._data[c] = list(vals)
    def to_rows(self):
        n = len(next(iter(self._data.values()))) if self._data else 0
        return [[self._data[c][i] for c in self.columns] for i in range(n)]
