"""Minimal stand-in for tqdm (not installable offline): only what bourse.step_sim.runner uses."""
def trange(n, *a, **k):
    return range(n)
def tqdm(it, *a, **k):
    return it
