//! C16 (built-in agents emit only valid instructions and never abort) and C17 (momentum symmetry):
//! the manual loop with per-group attribution. The harness reads the instruction queue and the order list
//! before and after every single `update` call.
use crate::core::*;
use crate::obs::*;
use crate::rng::SeamRng;
use crate::w4::*;

fn viol(scn: &W4Scn, class: &str, step: usize, field: &str, exp: String, act: String) -> Violation {
    Violation::new(&scn.cfg.property, class, step, field, exp, act)
}

fn is_market_order(o: &OOrder) -> bool {
    (o.bid && o.price == PMAX) || (!o.bid && o.price == 0)
}

struct GroupState {
    spec: AgentSpec,
    group: Group,
    /// ids (per the group's asset) of the orders this group created
    own: Vec<usize>,
    /// momentum groups: the documented recurrence, recomputed from the mids the harness observed at each update
    last_price: Option<f64>,
    momentum: f64,
}

pub fn make_rng(scn: &W4Scn) -> SeamRng {
    let mut rng = SeamRng::passthrough(scn.cfg.seed);
    for (i, c) in &scn.inject {
        rng.inject.insert(*i, *c);
    }
    rng
}

/// instructions and orders one `update` call produced
struct Delta {
    new_orders: Vec<(usize, OOrder)>,
    cancels: Vec<(usize, usize)>,
    modifies: usize,
}

fn delta(w: &World, q0: usize, n0: &[usize]) -> Result<Delta, String> {
    let q = w.queue();
    let mut d = Delta { new_orders: vec![], cancels: vec![], modifies: 0 };
    let mut seen_new: Vec<Vec<usize>> = vec![vec![]; n0.len()];
    for ins in &q[q0.min(q.len())..] {
        match ins {
            Queued::New { a, id } => seen_new[*a].push(*id),
            Queued::Cancel { a, id } => d.cancels.push((*a, *id)),
            Queued::Modify { .. } => d.modifies += 1,
        }
    }
    for a in 0..n0.len() {
        let orders = w.orders(a);
        let created: Vec<usize> = (n0[a]..orders.len()).collect();
        if created != seen_new[a] {
            return Err(format!("asset {}: orders created {:?} but New instructions queued for {:?}", a, created, seen_new[a]));
        }
        for id in created {
            d.new_orders.push((a, orders[id]));
        }
    }
    Ok(d)
}

pub fn execute_c16(scn: &W4Scn) -> RunOutcome {
    let mut stats = RunStats::default();
    let cfg = &scn.cfg;
    let res = (|| -> Result<(), Violation> {
        let mut w = guard(|| World::new(cfg)).map_err(|m| viol(scn, "agent-abort", 0, "construction", "no abort".into(), m))?;
        for (a, bid, price, vol) in &scn.initial {
            let _ = w.place(*a, *bid, *vol, 7777, Some(*price));
        }
        let mut rng = make_rng(scn);
        let mut groups: Vec<GroupState> = vec![];
        for s in &scn.agents {
            let g = guard(|| Group::new(s, cfg)).map_err(|m| viol(scn, "agent-abort", 0, "agent construction", "no abort".into(), m))?;
            groups.push(GroupState { spec: s.clone(), group: g, own: vec![], last_price: None, momentum: 0.0 });
        }
        let assets = w.assets();
        for step in 0..cfg.n_steps as usize {
            for (from, to) in &cfg.halts {
                if *from == step as u64 {
                    w.set_trading(false);
                    stats.fault("trading_halt");
                }
                if *to == step as u64 {
                    w.set_trading(true);
                    stats.fault("trading_resume");
                }
            }
            if (0..assets).any(|a| {
                let o = w.obs(a);
                o.book.bid_vol > 0 && o.book.ask_vol > 0 && o.book.bid_ask.0 >= o.book.bid_ask.1
            }) {
                stats.probe("agents_look_at_crossed_book");
            }
            for gi in 0..groups.len() {
                let q0 = w.queue().len();
                let n0: Vec<usize> = (0..assets).map(|a| w.n_orders(a)).collect();
                let a = groups[gi].spec.asset();
                let before = w.orders(a);
                let mid = w.mid(a);
                let tick = cfg.ticks[a];
                {
                    let g = &mut groups[gi].group;
                    let wr = &mut w;
                    let r = &mut rng;
                    guard(move || g.update(wr, r)).map_err(|m| {
                        viol(scn, "agent-abort", step, &format!("group {} update", gi), "no abort".into(), m).detail(format!("{:?} aborted the simulation at step {}", scn.agents[gi], step))
                    })?;
                }
                let d = delta(&w, q0, &n0).map_err(|e| viol(scn, "agent-invalid-order", step, &format!("group {}", gi), "one New instruction per created order".into(), e))?;
                if d.modifies > 0 {
                    return Err(viol(scn, "agent-invalid-order", step, &format!("group {}", gi), "no modify instructions".into(), d.modifies.to_string()));
                }
                let gs = &mut groups[gi];
                let bad = |field: &str, exp: String, act: String| viol(scn, "agent-invalid-order", step, &format!("group {} ({:?}).{}", gi, scn.agents[gi], field), exp, act);
                let corner = |field: &str, exp: String, act: String| viol(scn, "agent-probability-corner", step, &format!("group {} ({:?}).{}", gi, scn.agents[gi], field), exp, act);
                // every new order and every cancel is on the group's own asset
                for (oa, o) in &d.new_orders {
                    if *oa != a {
                        return Err(bad("asset", a.to_string(), oa.to_string()));
                    }
                    if o.status != NEW {
                        return Err(bad("status", "New".into(), o.status.to_string()));
                    }
                }
                // cancellations: own orders, active when the agent looked, no duplicates
                let mut seen = std::collections::BTreeSet::new();
                for (ca, id) in &d.cancels {
                    if *ca != a || !gs.own.contains(id) {
                        return Err(bad("cancel", "one of the group's own orders".into(), format!("({}, {})", ca, id)));
                    }
                    if before[*id].status != ACTIVE {
                        return Err(bad("cancel", "an order that was Active when the agent looked".into(), format!("order {} with status {}", id, before[*id].status)));
                    }
                    if !seen.insert(*id) {
                        return Err(bad("cancel", "each order cancelled once".into(), format!("order {} twice", id)));
                    }
                }
                let own_active: Vec<usize> = gs.own.iter().copied().filter(|id| before[*id].status == ACTIVE && !is_market_order(&before[*id])).collect();
                // statistical clause (interior probabilities): only while the generator is the untouched seeded stream
                let tally_on = scn.inject.is_empty();
                let multi = if assets > 1 || cfg.market { "m" } else { "s" };
                match &gs.spec {
                    AgentSpec::Random { n, tick_lo, tick_hi, vol_lo, vol_hi, activity, .. } => {
                        let mut acted = vec![0u32; *n];
                        for (_, o) in &d.new_orders {
                            if o.price % tick != 0 {
                                return Err(bad("price", format!("multiple of {}", tick), o.price.to_string()));
                            }
                            let k = o.price / tick;
                            if k < *tick_lo || k >= *tick_hi {
                                return Err(bad("price", format!("tick in [{}, {})", tick_lo, tick_hi), format!("{} (tick {})", o.price, k)));
                            }
                            if o.vol < *vol_lo || o.vol >= *vol_hi || o.vol != o.start_vol {
                                return Err(bad("vol", format!("in [{}, {})", vol_lo, vol_hi), o.vol.to_string()));
                            }
                            if (o.trader as usize) >= *n {
                                return Err(bad("trader", format!("< {}", n), o.trader.to_string()));
                            }
                            acted[o.trader as usize] += 1;
                        }
                        for (_, id) in &d.cancels {
                            let tr = before[*id].trader as usize;
                            if tr < *n {
                                acted[tr] += 1;
                            }
                        }
                        if acted.iter().any(|c| *c > 1) {
                            return Err(bad("actions per trader", "<= 1 per step".into(), format!("{:?}", acted)));
                        }
                        let total: u32 = acted.iter().sum();
                        if *activity <= 0.0 && total != 0 {
                            return Err(corner("activity 0", "no action".into(), format!("{} actions", total)));
                        }
                        if *activity >= 1.0 && total as usize != *n {
                            return Err(corner("activity >= 1", format!("exactly {} actions (one per trader)", n), total.to_string()));
                        }
                        if *activity >= 1.0 {
                            stats.probe("corner_p_ge_1");
                        }
                        if *activity <= 0.0 {
                            stats.probe("corner_p_eq_0");
                        }
                        if tally_on {
                            tally(&mut stats, &format!("random_activity_{}", multi), *n, total as usize, *activity as f64);
                        }
                    }
                    AgentSpec::Noise { id_start, n, p_limit, p_market, p_cancel, trade_vol, .. } => {
                        let (mut lim, mut mkt) = (0usize, 0usize);
                        for (_, o) in &d.new_orders {
                            if o.trader < *id_start || o.trader >= *id_start + *n as u32 {
                                return Err(bad("trader", format!("in [{}, {})", id_start, *id_start + *n as u32), o.trader.to_string()));
                            }
                            if o.vol != *trade_vol || o.start_vol != *trade_vol {
                                return Err(bad("vol", trade_vol.to_string(), o.vol.to_string()));
                            }
                            if is_market_order(o) {
                                mkt += 1;
                                continue;
                            }
                            lim += 1;
                            if o.price % tick != 0 {
                                return Err(bad("price", format!("multiple of {}", tick), o.price.to_string()).detail(format!("mid-price observed {}", mid)));
                            }
                            if o.bid && (o.price as f64) > mid {
                                return Err(bad("buy price", format!("<= mid {}", mid), o.price.to_string()));
                            }
                            if !o.bid && (o.price as f64) < mid {
                                // the only excuse: the observed mid lies above the highest price of the grid, so that no
                                // valid sell price at or above it exists (then the highest grid price is the nearest one)
                                let top = (PMAX - 1) / tick * tick;
                                if mid > top as f64 && o.price >= top {
                                    stats.probe("sell_above_grid_top_excused");
                                } else {
                                    return Err(bad("sell price", format!(">= mid {}", mid), o.price.to_string()));
                                }
                            }
                        }
                        let nn = *n as usize;
                        if *p_limit <= 0.0 && lim != 0 {
                            return Err(corner("p_limit 0", "no limit order".into(), lim.to_string()));
                        }
                        if *p_limit >= 1.0 && lim != nn {
                            return Err(corner("p_limit >= 1", format!("exactly {} limit orders", nn), lim.to_string()));
                        }
                        if *p_market <= 0.0 && mkt != 0 {
                            return Err(corner("p_market 0", "no market order".into(), mkt.to_string()));
                        }
                        if *p_market >= 1.0 && mkt != nn {
                            return Err(corner("p_market >= 1", format!("exactly {} market orders", nn), mkt.to_string()));
                        }
                        if lim > nn || mkt > nn {
                            return Err(bad("orders per step", format!("<= {} per kind", nn), format!("{} limit, {} market", lim, mkt)));
                        }
                        check_cancel_corner(*p_cancel, &own_active, &d.cancels, &corner, &mut stats)?;
                        if tally_on {
                            tally(&mut stats, &format!("noise_limit_{}", multi), nn, lim, *p_limit as f64);
                            tally(&mut stats, &format!("noise_market_{}", multi), nn, mkt, *p_market as f64);
                            tally(&mut stats, &format!("noise_cancel_{}", multi), own_active.len(), d.cancels.len(), *p_cancel as f64);
                        }
                    }
                    AgentSpec::Momentum { id_start, n, p_cancel, trade_vol, decay, demand, scale, order_ratio, .. } => {
                        // documented probability |demand * tanh(scale * M)| / n with M from the observed mids
                        let (mm, pp) = match gs.last_price {
                            Some(lp) => {
                                let mm = gs.momentum * (1.0 - decay) + decay * (mid - lp);
                                (mm, (demand * f64::tanh(scale * mm)).abs() / (*n as f64))
                            }
                            None => (0.0, 0.0),
                        };
                        gs.momentum = mm;
                        gs.last_price = Some(mid);
                        let n_mkt = d.new_orders.iter().filter(|(_, o)| is_market_order(o)).count();
                        let n_lim = d.new_orders.len() - n_mkt;
                        if pp == 0.0 && !d.new_orders.is_empty() {
                            return Err(corner("momentum probability 0", "no order (M = 0)".into(), format!("{} orders", d.new_orders.len())).detail(format!("M = {:e}", mm)));
                        }
                        if pp >= 1.0 + 1e-9 && n_mkt != *n as usize {
                            return Err(corner("momentum probability >= 1", format!("exactly {} market orders", n), n_mkt.to_string()).detail(format!("M = {:e}, p = {:e}", mm, pp)));
                        }
                        if order_ratio * pp >= 1.0 + 1e-9 && n_lim != *n as usize {
                            return Err(corner("momentum limit probability >= 1", format!("exactly {} limit orders", n), n_lim.to_string()).detail(format!("M = {:e}, p = {:e}", mm, pp)));
                        }
                        if *order_ratio == 0.0 && n_lim != 0 {
                            return Err(corner("momentum order ratio 0", "no limit order".into(), n_lim.to_string()));
                        }
                        if pp == 0.0 {
                            stats.probe("momentum_corner_p_eq_0");
                        }
                        if pp >= 1.0 + 1e-9 {
                            stats.probe("momentum_corner_p_ge_1");
                        }
                        let mut sides: Vec<bool> = vec![];
                        for (_, o) in &d.new_orders {
                            if o.trader < *id_start || o.trader >= *id_start + *n as u32 {
                                return Err(bad("trader", format!("in [{}, {})", id_start, *id_start + *n as u32), o.trader.to_string()));
                            }
                            if o.vol != *trade_vol || o.start_vol != *trade_vol {
                                return Err(bad("vol", trade_vol.to_string(), o.vol.to_string()));
                            }
                            sides.push(o.bid);
                            if is_market_order(o) {
                                continue;
                            }
                            if o.price % tick != 0 {
                                return Err(bad("price", format!("multiple of {}", tick), o.price.to_string()).detail(format!("mid-price observed {}", mid)));
                            }
                            if o.bid && (o.price as f64) > mid {
                                return Err(bad("buy price", format!("<= mid {}", mid), o.price.to_string()));
                            }
                            if !o.bid && (o.price as f64) < mid {
                                let top = (PMAX - 1) / tick * tick;
                                if mid > top as f64 && o.price >= top {
                                    stats.probe("sell_above_grid_top_excused");
                                } else {
                                    return Err(bad("sell price", format!(">= mid {}", mid), o.price.to_string()));
                                }
                            }
                        }
                        if sides.iter().any(|s| *s != sides[0]) {
                            return Err(bad("direction", "one direction per step (sign of the momentum)".into(), format!("{:?}", sides)));
                        }
                        if d.new_orders.len() > 2 * *n as usize {
                            return Err(bad("orders per step", format!("<= {}", 2 * *n as usize), d.new_orders.len().to_string()));
                        }
                        check_cancel_corner(*p_cancel, &own_active, &d.cancels, &corner, &mut stats)?;
                        if tally_on {
                            tally(&mut stats, &format!("momentum_market_{}", multi), *n as usize, n_mkt, pp);
                            tally(&mut stats, &format!("momentum_limit_{}", multi), *n as usize, n_lim, (order_ratio * pp).abs());
                            tally(&mut stats, &format!("momentum_cancel_{}", multi), own_active.len(), d.cancels.len(), *p_cancel as f64);
                        }
                    }
                }
                for (_, o) in &d.new_orders {
                    gs.own.push(o.id);
                    stats.probe("agent_orders_checked");
                    if !is_market_order(o) && (o.price == 0 || o.price == PMAX) {
                        stats.probe("limit_price_clamped_to_range_end");
                    }
                }
                stats.probe_n("agent_cancels_checked", d.cancels.len() as u64);
            }
            {
                let wr = &mut w;
                let r = &mut rng;
                guard(move || wr.step(r)).map_err(|m| viol(scn, "agent-abort", step, "env.step", "no abort".into(), m))?;
            }
            // a random agent never holds more than one live order
            for gs in &groups {
                if let AgentSpec::Random { n, asset, .. } = &gs.spec {
                    let orders = w.orders(*asset);
                    let mut live = vec![0u32; *n];
                    for id in &gs.own {
                        let o = &orders[*id];
                        if (o.status == ACTIVE || o.status == NEW) && (o.trader as usize) < *n {
                            live[o.trader as usize] += 1;
                        }
                    }
                    if live.iter().any(|c| *c > 1) {
                        return Err(viol(scn, "agent-invalid-order", step, "random agent live orders", "<= 1 per trader".into(), format!("{:?}", live)));
                    }
                }
            }
            stats.ops += 1;
        }
        stats.probe_n("rng_injections_fired", rng.injected);
        if rng.injected > 0 {
            stats.faults.insert("rng_boundary_value", rng.injected);
        }
        stats.end_digest = w.digest();
        Ok(())
    })();
    stats.sim_time = stats.ops * cfg.step_size;
    RunOutcome { violation: res.err(), stats }
}


// ---------------------------------------------------------------------------------------------
// interior probabilities (statistical clause of C16 / C17, evaluated over the whole batch)
// ---------------------------------------------------------------------------------------------

const FIX: f64 = (1u64 << 28) as f64;

/// `trials` independent Bernoulli(p) decisions of one update call, `succ` of which came out "act". Only interior
/// probabilities are tallied (the corners 0 and >= 1 are decided exactly, per update). One table per (cell, quartile of p):
/// [successes, trials, sum p * 2^28, sum p (1 - p) * 2^28, update calls].
fn tally(stats: &mut RunStats, cell: &str, trials: usize, succ: usize, p: f64) {
    if !(p > 0.0 && p < 1.0) || trials == 0 {
        return;
    }
    let q = ((p * 4.0) as usize).min(3);
    let k = format!("bern_{}_q{}", cell, q);
    stats.table_add(&k, 5, 0, succ as u64);
    stats.table_add(&k, 5, 1, trials as u64);
    stats.table_add(&k, 5, 2, (trials as f64 * p * FIX).round() as u64);
    stats.table_add(&k, 5, 3, (trials as f64 * p * (1.0 - p) * FIX).round() as u64);
    stats.table_add(&k, 5, 4, 1);
}

/// Batch verdict: for every cell the number of "act" decisions S is a sum of independent Bernoulli(p_i) variables with the
/// documented p_i. Bernstein: P(|S - sum p_i| >= t) <= 2 exp(-t^2 / (2 (V + t/3))), V = sum p_i (1 - p_i); with
/// t = L/3 + sqrt(L^2/9 + 2 V L), L = ln(2 cells / delta), a union bound over the cells keeps the false-alarm probability
/// of the whole batch below delta = 1e-9. Slack: the agents compare a 24-bit uniform draw with an f32 probability
/// (|P(act) - p| < 2^-23 per trial) and the fixed-point sums round once per update call.
pub fn finalize_bern(tables: &std::collections::BTreeMap<String, Vec<u64>>, prop: &str) -> (Option<Violation>, serde_json::Value) {
    let delta = 1e-9f64;
    let cells = tables.keys().filter(|k| k.starts_with("bern_")).count().max(1);
    let l = (2.0 * cells as f64 / delta).ln();
    let mut report = serde_json::Map::new();
    let mut worst: Option<(f64, Violation)> = None;
    for (k, v) in tables {
        if !k.starts_with("bern_") || v.len() < 5 {
            continue;
        }
        let (s, n, e, var, calls) = (v[0] as f64, v[1] as f64, v[2] as f64 / FIX, v[3] as f64 / FIX, v[4] as f64);
        let t = l / 3.0 + (l * l / 9.0 + 2.0 * var * l).sqrt();
        let slack = n / (1u64 << 22) as f64 + calls / FIX + 1.0;
        let dev = (s - e).abs();
        if dev > t + slack {
            let ratio = dev / (t + slack);
            if worst.as_ref().map(|w| ratio > w.0).unwrap_or(true) {
                worst = Some((
                    ratio,
                    Violation::new(prop, "agent-probability-biased", 0, k, format!("{:.1} +- {:.1} actions in {} decisions (sum of the documented probabilities)", e, t + slack, n), format!("{}", v[0]))
                        .detail(format!("the number of actions lies outside the exact Bernstein bound for independent decisions with the documented probabilities; union bound over {} cells, false-alarm probability < {:e} per batch", cells, delta)),
                ));
            }
        }
        report.insert(k.clone(), serde_json::json!({"decisions": v[1], "actions": v[0], "expected": e, "threshold": t + slack, "abs_deviation": dev}));
    }
    (worst.map(|w| w.1), serde_json::Value::Object(report))
}

fn check_cancel_corner(
    p_cancel: f32,
    own_active: &[usize],
    cancels: &[(usize, usize)],
    corner: &dyn Fn(&str, String, String) -> Violation,
    stats: &mut RunStats,
) -> Result<(), Violation> {
    if p_cancel <= 0.0 {
        if !own_active.is_empty() {
            stats.probe("corner_p_cancel_0_with_live_orders");
        }
        if !cancels.is_empty() {
            return Err(corner("p_cancel 0", "no cancellation".into(), format!("{:?}", cancels)));
        }
    }
    if p_cancel >= 1.0 {
        let mut c: Vec<usize> = cancels.iter().map(|x| x.1).collect();
        c.sort();
        let mut e = own_active.to_vec();
        e.sort();
        if !e.is_empty() {
            stats.probe("corner_p_cancel_1_with_live_orders");
        }
        if c != e {
            return Err(corner("p_cancel >= 1", format!("every live own order cancelled {:?}", e), format!("{:?}", c)));
        }
    }
    Ok(())
}

// ---------------------------------------------------------------------------------------------
// C17
// ---------------------------------------------------------------------------------------------

#[derive(Clone, Debug, Default, PartialEq)]
pub struct Flow {
    pub limit_buys: usize,
    pub limit_sells: usize,
    pub market_buys: usize,
    pub market_sells: usize,
}

const QUOTER: u32 = 9_999;
const QUOTE_VOL: u32 = 100_000_000;

/// One momentum run under harness-imposed quotes. Returns per-step (M, p_market, flow).
/// (status, remaining volume, side) of every order of the agents (not the harness's quotes), in id order, as observed before an update
type BookSig = Vec<(u8, u32, bool)>;

fn momentum_run(scn: &W4Scn, mirrored: bool, stats: &mut RunStats) -> Result<Vec<(f64, f64, Flow, BookSig)>, Violation> {
    let cfg = &scn.cfg;
    let spec = &scn.agents[0];
    let (a, n, decay, demand, scale, order_ratio) = match spec {
        AgentSpec::Momentum { asset, n, decay, demand, scale, order_ratio, .. } => (*asset, *n, *decay, *demand, *scale, *order_ratio),
        _ => return Err(viol(scn, "oracle-abort", 0, "scenario", "a momentum group".into(), "other".into())),
    };
    let tick = cfg.ticks[a] as i64;
    let mut w = guard(|| World::new(cfg)).map_err(|m| viol(scn, "agent-abort", 0, "construction", "no abort".into(), m))?;
    let mut rng = SeamRng::passthrough(cfg.seed);
    let mut g = guard(|| Group::new(spec, cfg)).map_err(|m| viol(scn, "agent-abort", 0, "agent construction", "no abort".into(), m))?;
    let c = cfg.centre as i64;
    let quote = |off: i32, half: bool| -> (u32, u32) {
        // bid / ask prices (in price units) giving mid = (c + off [+ 1/2]) * tick, mirrored about c
        // spread of 8 ticks: consecutive quotes (|offset change| <= 3) can never cross one another inside a step
        let (b, k) = if !mirrored { (c + off as i64 - 4, c + off as i64 + 4 + half as i64) } else { (c - off as i64 - 4 - half as i64, c - off as i64 + 4) };
        ((b * tick) as u32, (k * tick) as u32)
    };
    let mut cur: Option<(usize, usize)> = None;
    // initial quotes, made active by a first step before the agents ever look
    let (off0, half0) = cfg.path.first().copied().unwrap_or((0, false));
    {
        let (b, k) = quote(off0, half0);
        // the mirrored run submits its quote instructions in mirrored order (ask first), so that the k-th instruction of
        // every batch is the mirror image of the k-th instruction of the original run under the same shuffle
        let (ib, ik) = if !mirrored {
            let ib = w.place(a, true, QUOTE_VOL, QUOTER, Some(b)).map_err(|e| viol(scn, "oracle-abort", 0, "quote", "Ok".into(), e))?;
            let ik = w.place(a, false, QUOTE_VOL, QUOTER, Some(k)).map_err(|e| viol(scn, "oracle-abort", 0, "quote", "Ok".into(), e))?;
            (ib, ik)
        } else {
            let ik = w.place(a, false, QUOTE_VOL, QUOTER, Some(k)).map_err(|e| viol(scn, "oracle-abort", 0, "quote", "Ok".into(), e))?;
            let ib = w.place(a, true, QUOTE_VOL, QUOTER, Some(b)).map_err(|e| viol(scn, "oracle-abort", 0, "quote", "Ok".into(), e))?;
            (ib, ik)
        };
        cur = cur.or(Some((ib.1, ik.1)));
        // warm-up: the quotes become active; further idle steps before the agents' first update must not matter
        for _ in 0..cfg.warmup.max(1) {
            let wr = &mut w;
            let r = &mut rng;
            guard(move || wr.step(r)).map_err(|m| viol(scn, "agent-abort", 0, "env.step", "no abort".into(), m))?;
        }
        if cfg.warmup > 1 {
            stats.probe("several_warmup_steps");
        }
    }
    let mut out = vec![];
    let mut last_price: Option<f64> = None;
    let mut momentum = 0.0f64;
    for step in 0..cfg.path.len() {
        // a trading halt in the middle of the run, during which the harness rests one crossing quote (the book stays
        // crossed after the resume: nothing un-crosses it); the agents' rule does not depend on the switch or on a crossed
        // book - market orders are still *submitted* (and rejected / executed by the book as it sees fit)
        for (from, to) in &cfg.halts {
            if *from == step as u64 {
                w.set_trading(false);
                if let Some((ib, ik)) = cur {
                    let os = w.orders(a);
                    let (pb, pk) = (os[ib].price, os[ik].price);
                    let t = tick as u32;
                    if !mirrored {
                        let _ = w.place(a, true, 1, QUOTER, Some(pk + t));
                    } else {
                        let _ = w.place(a, false, 1, QUOTER, Some(pb - t));
                    }
                }
                stats.fault("trading_halt");
            }
            if *to == step as u64 {
                w.set_trading(true);
                stats.fault("trading_resume");
            }
        }
        let mid = w.mid(a);
        // the documented recurrence, recomputed by the harness from the mids it observed
        let (m, p) = match last_price {
            Some(lp) => {
                let m = momentum * (1.0 - decay) + decay * (mid - lp);
                (m, demand * f64::tanh(scale * m) / (n as f64))
            }
            None => (0.0, 0.0),
        };
        momentum = m;
        last_price = Some(mid);
        let q0 = w.queue().len();
        let n0: Vec<usize> = (0..w.assets()).map(|x| w.n_orders(x)).collect();
        let sig: BookSig = w.orders(a).iter().filter(|o| o.trader != QUOTER).map(|o| (o.status, o.vol, o.bid)).collect();
        {
            let wr = &mut w;
            let r = &mut rng;
            let gr = &mut g;
            guard(move || gr.update(wr, r)).map_err(|mm| viol(scn, "agent-abort", step, "momentum update", "no abort".into(), mm))?;
        }
        let d = delta(&w, q0, &n0).map_err(|e| viol(scn, "agent-invalid-order", step, "momentum group", "one New instruction per created order".into(), e))?;
        let mut f = Flow::default();
        for (_, o) in &d.new_orders {
            match (is_market_order(o), o.bid) {
                (true, true) => f.market_buys += 1,
                (true, false) => f.market_sells += 1,
                (false, true) => f.limit_buys += 1,
                (false, false) => f.limit_sells += 1,
            }
        }
        out.push((m, p, f, sig));
        // move the quotes for the next step
        if step + 1 < cfg.path.len() {
            let (off, half) = cfg.path[step + 1];
            if (off, half) != cfg.path[step] && cfg.quote_by_modify && cur.is_some() {
                // re-price the two resting quotes in place (modify instructions only: nothing is placed or cancelled on the
                // asset by the harness in this step)
                let (ib, ik) = cur.unwrap();
                let (b, k) = quote(off, half);
                if !mirrored {
                    w.modify(a, ib, Some(b), Some(QUOTE_VOL));
                    w.modify(a, ik, Some(k), Some(QUOTE_VOL));
                } else {
                    w.modify(a, ik, Some(k), Some(QUOTE_VOL));
                    w.modify(a, ib, Some(b), Some(QUOTE_VOL));
                }
                stats.probe("quotes_moved_by_modify");
            } else if (off, half) != cfg.path[step] {
                if let Some((ib, ik)) = cur {
                    if !mirrored {
                        w.cancel(a, ib);
                        w.cancel(a, ik);
                    } else {
                        w.cancel(a, ik);
                        w.cancel(a, ib);
                    }
                }
                let (b, k) = quote(off, half);
                let (ib, ik) = if !mirrored {
                    let ib = w.place(a, true, QUOTE_VOL, QUOTER, Some(b)).map_err(|e| viol(scn, "oracle-abort", step, "quote", "Ok".into(), e))?;
                    let ik = w.place(a, false, QUOTE_VOL, QUOTER, Some(k)).map_err(|e| viol(scn, "oracle-abort", step, "quote", "Ok".into(), e))?;
                    (ib, ik)
                } else {
                    let ik = w.place(a, false, QUOTE_VOL, QUOTER, Some(k)).map_err(|e| viol(scn, "oracle-abort", step, "quote", "Ok".into(), e))?;
                    let ib = w.place(a, true, QUOTE_VOL, QUOTER, Some(b)).map_err(|e| viol(scn, "oracle-abort", step, "quote", "Ok".into(), e))?;
                    (ib, ik)
                };
                cur = Some((ib.1, ik.1));
            }
        }
        {
            let wr = &mut w;
            let r = &mut rng;
            guard(move || wr.step(r)).map_err(|mm| viol(scn, "agent-abort", step, "env.step", "no abort".into(), mm))?;
        }
        if cfg.extra_step_every > 0 && step % cfg.extra_step_every as usize == cfg.extra_step_every as usize - 1 {
            // one more environment step without an agent update: the agents' signal is defined on the mid-prices they
            // observed at their own updates
            let wr = &mut w;
            let r = &mut rng;
            guard(move || wr.step(r)).map_err(|mm| viol(scn, "agent-abort", step, "env.step", "no abort".into(), mm))?;
            stats.probe("extra_step_without_update");
        }
        stats.ops += 1;
    }
    let _ = order_ratio;
    Ok(out)
}

pub fn execute_c17(scn: &W4Scn) -> RunOutcome {
    let mut stats = RunStats::default();
    let res = (|| -> Result<(), Violation> {
        let (n, demand, order_ratio) = match &scn.agents[0] {
            AgentSpec::Momentum { n, demand, order_ratio, .. } => (*n as usize, *demand, *order_ratio),
            _ => return Ok(()),
        };
        let run_a = momentum_run(scn, false, &mut stats)?;
        if run_a.len() > 60_000 {
            stats.probe("history_of_2_16_updates");
        }
        let eps = 1e-9;
        for (step, (m, p, f, _)) in run_a.iter().enumerate() {
            let bad = |field: &str, exp: String, act: String| {
                viol(scn, "momentum-asymmetry", step, field, exp, act).detail(format!("momentum M={:e}, demand*tanh(scale*M)/n={:e}, order flow {:?}", m, p, f))
            };
            // direction: buys only when M > 0, sells only when M < 0, nothing when M == 0
            if *m > 0.0 {
                stats.probe("step_M_positive");
                if f.limit_sells + f.market_sells > 0 {
                    return Err(bad("direction", "buys only (M > 0)".into(), format!("{:?}", f)));
                }
            } else if *m < 0.0 {
                stats.probe("step_M_negative");
                if f.limit_buys + f.market_buys > 0 {
                    return Err(bad("direction", "sells only (M < 0)".into(), format!("{:?}", f)));
                }
            } else {
                stats.probe("step_M_zero");
                if f.limit_buys + f.limit_sells + f.market_buys + f.market_sells > 0 {
                    return Err(bad("direction", "no orders (M = 0)".into(), format!("{:?}", f)));
                }
            }
            // saturated demand: the documented rule is deterministic
            if p.abs() >= 1.0 + eps {
                stats.probe("saturated_step");
                let got = if *m > 0.0 { f.market_buys } else { f.market_sells };
                if got != n {
                    return Err(bad("saturated market orders", format!("exactly {} market {}", n, if *m > 0.0 { "buys" } else { "sells" }), got.to_string()));
                }
                if (order_ratio * p).abs() >= 1.0 + eps {
                    let got = if *m > 0.0 { f.limit_buys } else { f.limit_sells };
                    if got != n {
                        return Err(bad("saturated limit orders", format!("exactly {} limit {}", n, if *m > 0.0 { "buys" } else { "sells" }), got.to_string()));
                    }
                    stats.probe("saturated_limit_step");
                }
            }
            if order_ratio == 0.0 && f.limit_buys + f.limit_sells > 0 {
                return Err(bad("order ratio 0", "no limit orders".into(), format!("{:?}", f)));
            }
            // interior probabilities: the documented |demand*tanh(scale*M)|/n per trader (times the order ratio for limit
            // orders), tallied per direction over the whole batch (original run only: the mirrored run re-uses the seed)
            let dir = if *m > 0.0 { "rising" } else { "falling" };
            tally(&mut stats, &format!("market_{}", dir), n, f.market_buys + f.market_sells, p.abs());
            tally(&mut stats, &format!("limit_{}", dir), n, f.limit_buys + f.limit_sells, (order_ratio * p).abs());
        }
        // mirrored run: same seed and parameters, price path mirrored about the centre level. Buys of one run must be the
        // sells of the other, step by step, limit and market orders counted separately. The generator draws of the two
        // runs are aligned as long as (i) the momentum signals mirror exactly and (ii) every order has the same status and
        // remaining volume (on the opposite side) in both runs when the agents look: then the same orders are live (same
        // cancellation draws) and the same probabilities are compared with the same draws. Both conditions are observed
        // before each update; once one fails (e.g. a limit price clamped at an end of the price range in one run only) the
        // comparison stops - that is the harness's mirror construction failing, not the agents.
        {
            let run_b = momentum_run(scn, true, &mut stats)?;
            stats.probe("mirrored_run");
            for (step, (x, y)) in run_a.iter().zip(run_b.iter()).enumerate() {
                if x.0 != -y.0 {
                    stats.probe("mirror_construction_skipped");
                    break;
                }
                if x.3.len() != y.3.len() || x.3.iter().zip(y.3.iter()).any(|(p, q)| p.0 != q.0 || p.1 != q.1 || p.2 == q.2) {
                    stats.probe("mirror_book_diverged_skipped");
                    if std::env::var("VERIF_DEBUG").is_ok() {
                        let k = x.3.iter().zip(y.3.iter()).position(|(p, q)| p.0 != q.0 || p.1 != q.1 || p.2 == q.2);
                        eprintln!("step {} lens {} {} first diff {:?}: {:?} vs {:?}", step, x.3.len(), y.3.len(), k, k.map(|k| x.3[k]), k.map(|k| y.3[k]));
                    }
                    break;
                }
                if order_ratio > 0.0 {
                    stats.probe("mirrored_step_with_limit_orders");
                }
                if x.2.market_buys != y.2.market_sells || x.2.market_sells != y.2.market_buys || x.2.limit_buys != y.2.limit_sells || x.2.limit_sells != y.2.limit_buys {
                    return Err(viol(scn, "momentum-asymmetry", step, "mirrored order flow", format!("buys/sells swapped: {:?}", x.2), format!("{:?}", y.2))
                        .detail(format!("M={:e} in the original run, {:e} in the mirrored run, demand={}", x.0, y.0, demand)));
                }
            }
        }
        Ok(())
    })();
    stats.sim_time = stats.ops * scn.cfg.step_size;
    let mut h = Fnv::new();
    h.u64(stats.ops);
    h.u64(scn.cfg.seed);
    stats.end_digest = h.0;
    RunOutcome { violation: res.err(), stats }
}
