mod api;
mod checks;
mod core;
mod model;
mod monitors;
mod obs;
mod rng;
mod runner;
mod scenario;
mod shrink;
mod w1exec;
mod w1gen;
mod w1ops;
mod w3exec;
mod w3gen;
mod w3ops;
mod w3stat;
mod w4;
mod w4agents;
mod w4gen;
mod w5;
mod w5gen;
mod w4probe;
mod probe;
mod shapes_gen;

use crate::core::Tier;

fn usage() -> ! {
    eprintln!("usage: bourse-dst check <ID> <quick|thorough> | replay <file> | gen <ID> <run_index> | list");
    std::process::exit(2)
}

fn main() {
    let args: Vec<String> = std::env::args().collect();
    if args.len() < 2 {
        usage();
    }
    match args[1].as_str() {
        "check" => {
            if args.len() < 4 {
                usage();
            }
            let tier = match args[3].as_str() {
                "quick" => Tier::Quick,
                "thorough" => Tier::Thorough,
                _ => usage(),
            };
            let spec = match checks::find(&args[2]) {
                Some(s) => s,
                None => {
                    eprintln!("harness error: no check registered for {}", args[2]);
                    std::process::exit(2);
                }
            };
            // a panic of the harness itself (generator, runner) is a harness error (exit 2), never a verdict
            let code = match std::panic::catch_unwind(std::panic::AssertUnwindSafe(|| runner::run_check(&spec, tier))) {
                Ok(c) => c,
                Err(_) => {
                    println!("harness error: the simulator itself panicked (see stderr); no verdict");
                    2
                }
            };
            std::process::exit(code);
        }
        "replay" => {
            if args.len() < 3 {
                usage();
            }
            let code = match std::panic::catch_unwind(std::panic::AssertUnwindSafe(|| runner::replay(&args[2]))) {
                Ok(c) => c,
                Err(_) => {
                    println!("harness error: the simulator itself panicked during replay (see stderr); no verdict");
                    2
                }
            };
            std::process::exit(code);
        }
        "gen" => {
            // print the scenario of one run (debugging aid; pure function of seed and index)
            let spec = checks::find(&args[2]).unwrap_or_else(|| usage());
            let idx: u64 = args[3].parse().unwrap_or_else(|_| usage());
            let rs = rng::run_seed(runner::verif_seed(), spec.id, idx);
            let scn = (spec.generate)(spec.id, rs, Tier::Quick, idx);
            println!("{}", serde_json::to_string_pretty(&scn).unwrap());
        }
        "child-sim" => {
            core::install_panic_hook();
            std::process::exit(w4::child_main(&args));
        }
        "list" => {
            for s in checks::specs() {
                println!("{}", s.id);
            }
        }
        _ => usage(),
    }
}
