//! Harness randomness (`SimRng`) and the generator bourse sees (`SeamRng`).
//!
//! `SimRng` is never handed to bourse; `SeamRng` is the only `RngCore` bourse is ever given.
use rand::RngCore;
use rand_xoshiro::rand_core::SeedableRng;
use rand_xoshiro::Xoroshiro128StarStar;

/// The family of seedable generators a shipped runner / binding may build from its `seed` argument.  Kind 0 is what the
/// pinned tree uses.  No property names the algorithm, so a comparison "shipped runner == documented loop driven by
/// the generator built from the seed" that fails with kind 0 is retried with every other kind before it is reported
/// (a swap of the algorithm keeps C09 / C18 true and must not raise an alarm).
pub const GEN_NAMES: [&str; 16] = [
    "Xoroshiro128StarStar", "Xoroshiro128PlusPlus", "Xoroshiro128Plus", "Xoshiro256StarStar", "Xoshiro256PlusPlus", "Xoshiro256Plus",
    "Xoshiro512StarStar", "Xoshiro512PlusPlus", "Xoshiro512Plus", "SplitMix64", "Xoshiro128StarStar", "Xoshiro128PlusPlus",
    "Xoroshiro64StarStar", "StdRng", "SmallRng", "ChaCha8Rng",
];
pub enum Gen {
    K0(Xoroshiro128StarStar),
    K1(rand_xoshiro::Xoroshiro128PlusPlus),
    K2(rand_xoshiro::Xoroshiro128Plus),
    K3(rand_xoshiro::Xoshiro256StarStar),
    K4(rand_xoshiro::Xoshiro256PlusPlus),
    K5(rand_xoshiro::Xoshiro256Plus),
    K6(rand_xoshiro::Xoshiro512StarStar),
    K7(rand_xoshiro::Xoshiro512PlusPlus),
    K8(rand_xoshiro::Xoshiro512Plus),
    K9(rand_xoshiro::SplitMix64),
    K10(rand_xoshiro::Xoshiro128StarStar),
    K11(rand_xoshiro::Xoshiro128PlusPlus),
    K12(rand_xoshiro::Xoroshiro64StarStar),
    K13(rand::rngs::StdRng),
    K14(rand::rngs::SmallRng),
    K15(rand_chacha::ChaCha8Rng),
}
macro_rules! gen_dispatch {
    ($s:expr, $g:ident => $e:expr) => {
        match $s {
            Gen::K0($g) => $e, Gen::K1($g) => $e, Gen::K2($g) => $e, Gen::K3($g) => $e, Gen::K4($g) => $e, Gen::K5($g) => $e,
            Gen::K6($g) => $e, Gen::K7($g) => $e, Gen::K8($g) => $e, Gen::K9($g) => $e, Gen::K10($g) => $e, Gen::K11($g) => $e,
            Gen::K12($g) => $e, Gen::K13($g) => $e, Gen::K14($g) => $e, Gen::K15($g) => $e,
        }
    };
}
impl Gen {
    pub fn new(kind: usize, seed: u64) -> Gen {
        match kind {
            0 => Gen::K0(SeedableRng::seed_from_u64(seed)),
            1 => Gen::K1(SeedableRng::seed_from_u64(seed)),
            2 => Gen::K2(SeedableRng::seed_from_u64(seed)),
            3 => Gen::K3(SeedableRng::seed_from_u64(seed)),
            4 => Gen::K4(SeedableRng::seed_from_u64(seed)),
            5 => Gen::K5(SeedableRng::seed_from_u64(seed)),
            6 => Gen::K6(SeedableRng::seed_from_u64(seed)),
            7 => Gen::K7(SeedableRng::seed_from_u64(seed)),
            8 => Gen::K8(SeedableRng::seed_from_u64(seed)),
            9 => Gen::K9(SeedableRng::seed_from_u64(seed)),
            10 => Gen::K10(SeedableRng::seed_from_u64(seed)),
            11 => Gen::K11(SeedableRng::seed_from_u64(seed)),
            12 => Gen::K12(SeedableRng::seed_from_u64(seed)),
            13 => Gen::K13(SeedableRng::seed_from_u64(seed)),
            14 => Gen::K14(SeedableRng::seed_from_u64(seed)),
            _ => Gen::K15(SeedableRng::seed_from_u64(seed)),
        }
    }
}
impl RngCore for Gen {
    fn next_u32(&mut self) -> u32 {
        gen_dispatch!(self, g => g.next_u32())
    }
    fn next_u64(&mut self) -> u64 {
        gen_dispatch!(self, g => g.next_u64())
    }
    fn fill_bytes(&mut self, dest: &mut [u8]) {
        gen_dispatch!(self, g => g.fill_bytes(dest))
    }
    fn try_fill_bytes(&mut self, dest: &mut [u8]) -> Result<(), rand::Error> {
        self.fill_bytes(dest);
        Ok(())
    }
}

pub fn splitmix(x: &mut u64) -> u64 {
    *x = x.wrapping_add(0x9E37_79B9_7F4A_7C15);
    let mut z = *x;
    z = (z ^ (z >> 30)).wrapping_mul(0xBF58_476D_1CE4_E5B9);
    z = (z ^ (z >> 27)).wrapping_mul(0x94D0_49BB_1331_11EB);
    z ^ (z >> 31)
}

/// FNV-1a over bytes, used for stream derivation and digests (stable across processes).
pub fn fnv(bytes: &[u8]) -> u64 {
    let mut h: u64 = 0xcbf2_9ce4_8422_2325;
    for b in bytes {
        h ^= *b as u64;
        h = h.wrapping_mul(0x0000_0100_0000_01B3);
    }
    h
}

pub fn mix(a: u64, b: u64) -> u64 {
    let mut s = a ^ b.wrapping_mul(0x9E37_79B9_7F4A_7C15).rotate_left(17);
    let x = splitmix(&mut s);
    x ^ splitmix(&mut s).rotate_left(23)
}

/// Seed of run `idx` of property `prop` under global seed `seed`.
pub fn run_seed(seed: u64, prop: &str, idx: u64) -> u64 {
    mix(mix(seed, fnv(prop.as_bytes())), idx)
}

#[derive(Clone, Debug)]
pub struct SimRng {
    s: [u64; 4],
}

impl SimRng {
    pub fn new(seed: u64) -> Self {
        let mut x = seed;
        let s = [splitmix(&mut x), splitmix(&mut x), splitmix(&mut x), splitmix(&mut x)];
        SimRng { s }
    }
    pub fn next(&mut self) -> u64 {
        let r = self.s[1].wrapping_mul(5).rotate_left(7).wrapping_mul(9);
        let t = self.s[1] << 17;
        self.s[2] ^= self.s[0];
        self.s[3] ^= self.s[1];
        self.s[1] ^= self.s[2];
        self.s[0] ^= self.s[3];
        self.s[2] ^= t;
        self.s[3] = self.s[3].rotate_left(45);
        r
    }
    /// uniform in 0..n (n>0); slight modulo bias is irrelevant for workload generation
    pub fn below(&mut self, n: u64) -> u64 {
        debug_assert!(n > 0);
        ((self.next() as u128 * n as u128) >> 64) as u64
    }
    pub fn range(&mut self, lo: u64, hi_incl: u64) -> u64 {
        lo + self.below(hi_incl - lo + 1)
    }
    pub fn usize(&mut self, n: usize) -> usize {
        self.below(n as u64) as usize
    }
    pub fn chance(&mut self, p: f64) -> bool {
        ((self.next() >> 11) as f64) * (1.0 / (1u64 << 53) as f64) < p
    }
    pub fn f64(&mut self) -> f64 {
        ((self.next() >> 11) as f64) * (1.0 / (1u64 << 53) as f64)
    }
    pub fn pick<'a, T>(&mut self, xs: &'a [T]) -> &'a T {
        &xs[self.usize(xs.len())]
    }
    pub fn weighted(&mut self, w: &[u32]) -> usize {
        let tot: u64 = w.iter().map(|x| *x as u64).sum();
        debug_assert!(tot > 0);
        let mut r = self.below(tot);
        for (i, x) in w.iter().enumerate() {
            if r < *x as u64 {
                return i;
            }
            r -= *x as u64;
        }
        w.len() - 1
    }
    pub fn fork(&mut self) -> SimRng {
        SimRng::new(self.next())
    }
    pub fn shuffle<T>(&mut self, xs: &mut [T]) {
        for i in (1..xs.len()).rev() {
            let j = self.usize(i + 1);
            xs.swap(i, j);
        }
    }
}

/// One logged draw of the seam generator: (kind, value). kind 32 / 64 / 0 (fill_bytes).
pub type Draw = (u8, u64);

thread_local! {
    /// per-thread trace of every call made on any `SeamRng` of this thread (C20: which `RngCore` method the members of a
    /// set reached, with what result - a wrapper between the set and its members that re-routes calls shows up here)
    static TRACE: std::cell::RefCell<Option<Vec<Draw>>> = const { std::cell::RefCell::new(None) };
}
pub fn trace_start() {
    TRACE.with(|t| *t.borrow_mut() = Some(Vec::new()));
}
pub fn trace_take() -> Vec<Draw> {
    TRACE.with(|t| t.borrow_mut().take().unwrap_or_default())
}
fn trace_push(d: Draw) {
    TRACE.with(|t| {
        if let Some(v) = t.borrow_mut().as_mut() {
            v.push(d);
        }
    });
}

/// The generator handed to bourse. Wraps the very `Xoroshiro128StarStar::seed_from_u64(seed)` the
/// shipped runners use; optionally scripted (steering) or faulted (boundary injections).
pub struct SeamRng {
    inner: Gen,
    /// values to return from the next `next_u32` calls instead of the inner stream (steering)
    pub script: std::collections::VecDeque<u32>,
    /// sparse injections: absolute draw index -> boundary class (0: zero, 1: all ones, 2: one, 3: top bit)
    pub inject: std::collections::BTreeMap<u64, u8>,
    pub draws: u64,
    pub injected: u64,
    pub scripted: u64,
    pub log: Option<Vec<Draw>>,
}

impl SeamRng {
    pub fn passthrough(seed: u64) -> Self {
        Self::passthrough_kind(seed, 0)
    }
    /// the same seam around another member of the generator family (see `Gen`)
    pub fn passthrough_kind(seed: u64, kind: usize) -> Self {
        SeamRng {
            inner: Gen::new(kind, seed),
            script: Default::default(),
            inject: Default::default(),
            draws: 0,
            injected: 0,
            scripted: 0,
            log: None,
        }
    }
    pub fn with_log(mut self) -> Self {
        self.log = Some(Vec::new());
        self
    }
    fn boundary(class: u8, wide: bool) -> u64 {
        match (class, wide) {
            (0, _) => 0,
            (1, true) => u64::MAX,
            (1, false) => u32::MAX as u64,
            (2, _) => 1,
            (_, true) => 1u64 << 63,
            (_, false) => 1u64 << 31,
        }
    }
}

impl RngCore for SeamRng {
    fn next_u32(&mut self) -> u32 {
        let idx = self.draws;
        self.draws += 1;
        let v = if let Some(v) = self.script.pop_front() {
            self.scripted += 1;
            v
        } else if let Some(c) = self.inject.get(&idx) {
            self.injected += 1;
            let _ = self.inner.next_u32(); // keep the underlying stream aligned
            SeamRng::boundary(*c, false) as u32
        } else {
            self.inner.next_u32()
        };
        if let Some(l) = self.log.as_mut() {
            l.push((32, v as u64));
        }
        trace_push((32, v as u64));
        v
    }
    fn next_u64(&mut self) -> u64 {
        let idx = self.draws;
        self.draws += 1;
        let v = if let Some(c) = self.inject.get(&idx) {
            self.injected += 1;
            let _ = self.inner.next_u64();
            SeamRng::boundary(*c, true)
        } else {
            self.inner.next_u64()
        };
        if let Some(l) = self.log.as_mut() {
            l.push((64, v));
        }
        trace_push((64, v));
        v
    }
    fn fill_bytes(&mut self, dest: &mut [u8]) {
        self.draws += 1;
        self.inner.fill_bytes(dest);
        if let Some(l) = self.log.as_mut() {
            l.push((0, dest.len() as u64));
        }
        trace_push((0, dest.len() as u64));
    }
    fn try_fill_bytes(&mut self, dest: &mut [u8]) -> Result<(), rand::Error> {
        self.fill_bytes(dest);
        Ok(())
    }
}

/// Values that make rand 0.8.5's `shuffle` (Durstenfeld, `gen_range(0..i+1)` on u32 via widening
/// multiply) move `items[src[k]]` to position k, i.e. produce the arrangement `target` where
/// `target[k]` = original index of the element processed at position k.
/// Returns the u32 script to feed through `SeamRng::script`.
pub fn steer_shuffle(target: &[usize]) -> Vec<u32> {
    let n = target.len();
    if n < 2 {
        return vec![];
    }
    // simulate: arr starts as identity; for i in (1..n).rev(): swap(i, j). After the loop position i is final
    // immediately after its swap. So choose j = current position of target[i].
    let mut arr: Vec<usize> = (0..n).collect();
    let mut pos: Vec<usize> = (0..n).collect(); // pos[elem] = index in arr
    let mut out = Vec::with_capacity(n - 1);
    for i in (1..n).rev() {
        let want = target[i];
        let j = pos[want];
        debug_assert!(j <= i);
        let a = arr[i];
        arr.swap(i, j);
        pos[a] = j;
        pos[want] = i;
        let range = (i + 1) as u64;
        // smallest v with floor(v*range / 2^32) == j
        let v = ((j as u64) << 32).div_ceil(range);
        out.push(v as u32);
    }
    out
}

#[cfg(test)]
mod tests {
    use super::*;
    use rand::seq::SliceRandom;
    #[test]
    fn steering_works() {
        let mut r = SimRng::new(7);
        for n in 0..40usize {
            for _ in 0..50 {
                let mut target: Vec<usize> = (0..n).collect();
                r.shuffle(&mut target);
                let mut s = SeamRng::passthrough(1);
                s.script = steer_shuffle(&target).into();
                let mut v: Vec<usize> = (0..n).collect();
                v.shuffle(&mut s);
                assert_eq!(v, target);
                assert!(s.script.is_empty());
            }
        }
    }
}
