//! W5: the Python classes as a second party. A CPython child (`python3-vt`) imports the freshly built
//! `bourse.core` extension and executes harness-generated calls one by one; the Rust core executes the same
//! calls; return values / exception classes and complete observations are compared call by call (C18), and
//! the array / dictionary / data-frame layouts are compared with tables transcribed from the documentation (C19).
use crate::api::{conv_order, conv_trade};
use crate::core::*;
use crate::obs::*;
use bourse_book::types::Side;
use bourse_book::OrderBook;
use bourse_de::Env;
use rand_xoshiro::rand_core::SeedableRng;
use crate::rng::Gen;
use serde::{Deserialize, Serialize};
use serde_json::{json, Value};
use std::cell::RefCell;
use std::io::{BufRead, BufReader, Write};
use std::process::{Child, ChildStdin, ChildStdout, Command, Stdio};

pub const PYTHON: &str = "python3-vt";
pub const DRIVER: &str = "/verif/py/driver.py";

#[derive(Clone, Debug, Serialize, Deserialize, PartialEq)]
pub struct PyCall {
    /// new_book | new_env | new_numpy | load_book | call | prop | df_orders | df_trades | np_limit_orders | np_cancellations | np_instructions
    pub k: String,
    /// object name
    pub o: String,
    #[serde(default)]
    pub m: String,
    #[serde(default)]
    pub a: Vec<Value>,
}

#[derive(Clone, Debug, Serialize, Deserialize, PartialEq)]
pub struct W5Scn {
    pub property: String,
    pub calls: Vec<PyCall>,
    /// also execute on a second interpreter started with another PYTHONHASHSEED and require identical answers
    pub second_hashseed: bool,
}

pub fn big(v: i128) -> Value {
    if v >= 0 && v <= u64::MAX as i128 {
        json!(v as u64)
    } else if v < 0 && v >= i64::MIN as i128 {
        json!(v as i64)
    } else {
        json!(format!("int:{}", v))
    }
}
fn as_int(v: &Value) -> Option<i128> {
    match v {
        Value::Number(n) => n.as_u64().map(|x| x as i128).or_else(|| n.as_i64().map(|x| x as i128)),
        Value::String(s) => s.strip_prefix("int:").and_then(|x| x.parse::<i128>().ok()),
        _ => None,
    }
}
fn u32_arg(v: &Value) -> Result<u32, ()> {
    match as_int(v) {
        Some(x) if x >= 0 && x <= u32::MAX as i128 => Ok(x as u32),
        _ => Err(()),
    }
}
fn u64_arg(v: &Value) -> Result<u64, ()> {
    match as_int(v) {
        Some(x) if x >= 0 && x <= u64::MAX as i128 => Ok(x as u64),
        _ => Err(()),
    }
}
fn opt_u32(v: Option<&Value>) -> Result<Option<u32>, ()> {
    match v {
        None | Some(Value::Null) => Ok(None),
        Some(x) => u32_arg(x).map(Some),
    }
}

// ---------------------------------------------------------------------------------------------
// the interpreter child
// ---------------------------------------------------------------------------------------------

pub struct PyChild {
    child: Child,
    stdin: ChildStdin,
    stdout: BufReader<ChildStdout>,
    pub hello: Value,
}

impl PyChild {
    pub fn spawn(hashseed: u32) -> Result<PyChild, String> {
        let mut cmd = Command::new(PYTHON);
        cmd.arg("-W").arg("error::DeprecationWarning").arg(DRIVER).stdin(Stdio::piped()).stdout(Stdio::piped()).stderr(Stdio::null());
        cmd.env("PYTHONHASHSEED", hashseed.to_string()).env("PYTHONDONTWRITEBYTECODE", "1");
        let mut child = cmd.spawn().map_err(|e| format!("cannot start {}: {}", PYTHON, e))?;
        let stdin = child.stdin.take().ok_or("no stdin")?;
        let mut stdout = BufReader::new(child.stdout.take().ok_or("no stdout")?);
        let mut line = String::new();
        stdout.read_line(&mut line).map_err(|e| e.to_string())?;
        let hello: Value = serde_json::from_str(line.trim()).map_err(|e| format!("interpreter did not start the driver (is the extension built?): {} {:?}", e, line))?;
        Ok(PyChild { child, stdin, stdout, hello })
    }
    pub fn request(&mut self, v: &Value) -> Result<Value, String> {
        let s = serde_json::to_string(v).unwrap();
        self.stdin.write_all(s.as_bytes()).and_then(|_| self.stdin.write_all(b"\n")).and_then(|_| self.stdin.flush()).map_err(|e| format!("interpreter gone: {}", e))?;
        let mut line = String::new();
        let n = self.stdout.read_line(&mut line).map_err(|e| e.to_string())?;
        if n == 0 {
            return Err("interpreter exited (crash or abort inside the extension module)".into());
        }
        serde_json::from_str(line.trim()).map_err(|e| format!("bad driver answer: {}", e))
    }
}
impl Drop for PyChild {
    fn drop(&mut self) {
        let _ = self.child.kill();
        let _ = self.child.wait();
    }
}

thread_local! {
    static PY: RefCell<[Option<PyChild>; 2]> = const { RefCell::new([None, None]) };
}
const HASHSEEDS: [u32; 2] = [0, 4242];

fn with_py<T>(which: usize, f: impl FnOnce(&mut PyChild) -> Result<T, String>) -> Result<T, String> {
    PY.with(|p| {
        let mut p = p.borrow_mut();
        if p[which].is_none() {
            p[which] = Some(PyChild::spawn(HASHSEEDS[which])?);
        }
        let r = f(p[which].as_mut().unwrap());
        if r.is_err() {
            p[which] = None; // respawn next time
        }
        r
    })
}

pub fn preflight() -> Result<String, String> {
    let c = PyChild::spawn(0)?;
    Ok(format!("{}", c.hello))
}

// ---------------------------------------------------------------------------------------------
// the Rust mirror
// ---------------------------------------------------------------------------------------------

enum Obj {
    Book(Box<OrderBook>),
    Env(Box<Env>, Gen),
    Numpy(Box<Env>, Gen),
}

fn order_json(o: &OOrder) -> Value {
    // tuple layout from the documentation: (side, status, arr_time, end_time, vol, start_vol, price, trader_id, order_id); True = bid
    json!([o.bid, o.status, o.arr, o.end, o.vol, o.start_vol, o.price, o.trader, o.id])
}
fn trade_json(t: &OTrade) -> Value {
    json!([t.t, t.bid, t.price, t.vol, t.active, t.passive])
}

fn book_obs_json<const L: usize>(b: &OrderBook<L>) -> Value {
    json!([
        b.ask_vol(),
        b.ask_best_vol(),
        [b.ask_best_vol_and_orders().0, b.ask_best_vol_and_orders().1],
        b.bid_vol(),
        b.bid_best_vol(),
        [b.bid_best_vol_and_orders().0, b.bid_best_vol_and_orders().1],
        [b.bid_ask().0, b.bid_ask().1],
        b.get_orders().into_iter().map(|o| order_json(&conv_order(o))).collect::<Vec<_>>(),
        b.get_trades().iter().map(|t| trade_json(&conv_trade(t))).collect::<Vec<_>>(),
    ])
}

fn env_obs_json(e: &Env) -> Value {
    let b = e.get_orderbook();
    json!([
        b.get_time(),
        b.ask_vol(),
        b.ask_best_vol(),
        [b.ask_best_vol_and_orders().0, b.ask_best_vol_and_orders().1],
        b.bid_vol(),
        b.bid_best_vol(),
        [b.bid_best_vol_and_orders().0, b.bid_best_vol_and_orders().1],
        b.get_trade_vol(),
        [b.bid_ask().0, b.bid_ask().1],
        b.get_orders().into_iter().map(|o| order_json(&conv_order(o))).collect::<Vec<_>>(),
        b.get_trades().iter().map(|t| trade_json(&conv_trade(t))).collect::<Vec<_>>(),
        [e.get_prices().0.clone(), e.get_prices().1.clone()],
        [e.get_volumes().0.clone(), e.get_volumes().1.clone()],
        [e.get_touch_volumes().0.clone(), e.get_touch_volumes().1.clone()],
        [e.get_touch_order_counts().0.clone(), e.get_touch_order_counts().1.clone()],
        e.get_trade_vols().clone(),
    ])
}

fn numpy_obs_json(e: &Env) -> Value {
    let b = e.get_orderbook();
    json!([
        b.get_orders().into_iter().map(|o| order_json(&conv_order(o))).collect::<Vec<_>>(),
        b.get_trades().iter().map(|t| trade_json(&conv_trade(t))).collect::<Vec<_>>(),
    ])
}

/// Index 0, "trade volume (in the last step)": the last entry of the recorded per-step series once a step has run
/// (between steps nothing trades, so the live counter must agree with it), the live counter before the first step.
fn last_step_volume(e: &Env) -> u32 {
    e.get_trade_vols().last().copied().unwrap_or_else(|| e.get_orderbook().get_trade_vol())
}

/// documented layout of the level-1 array (9 entries), from values read through independent getters of the live book
fn l1_doc(e: &Env) -> Vec<u32> {
    let b = e.get_orderbook();
    vec![
        last_step_volume(e),               // 0 trade volume (in the last step)
        b.bid_ask().0,                     // 1 bid touch price
        b.bid_ask().1,                     // 2 ask touch price
        b.bid_vol(),                       // 3 bid total volume
        b.ask_vol(),                       // 4 ask total volume
        b.bid_best_vol_and_orders().0,     // 5 bid touch volume
        b.bid_best_vol_and_orders().1,     // 6 number of buy orders at touch
        b.ask_best_vol_and_orders().0,     // 7 ask touch volume
        b.ask_best_vol_and_orders().1,     // 8 number of sell orders at touch
    ]
}
/// documented layout of the level-2 array (45 entries)
fn l2_doc(e: &Env) -> Vec<u32> {
    let b = e.get_orderbook();
    let mut v = vec![last_step_volume(e), b.bid_ask().0, b.bid_ask().1, b.bid_vol(), b.ask_vol()];
    let (bl, al) = (b.bid_levels(), b.ask_levels());
    for i in 0..10 {
        v.push(bl[i].0); // bid volume at level i
        v.push(bl[i].1); // number of buy orders at level i
        v.push(al[i].0); // ask volume at level i
        v.push(al[i].1); // number of sell orders at level i
    }
    v
}
/// documented keys of the market-data dictionary bound to the matching Rust series
fn market_data_doc(e: &Env) -> Value {
    let h = e.get_level_2_data_history();
    let mut m = serde_json::Map::new();
    m.insert("bid_price".into(), json!(e.get_prices().0));
    m.insert("ask_price".into(), json!(e.get_prices().1));
    m.insert("bid_vol".into(), json!(e.get_volumes().0));
    m.insert("ask_vol".into(), json!(e.get_volumes().1));
    m.insert("trade_vol".into(), json!(e.get_trade_vols()));
    for i in 0..10 {
        m.insert(format!("bid_vol_{}", i), json!(h.volumes_at_levels.0[i]));
        m.insert(format!("ask_vol_{}", i), json!(h.volumes_at_levels.1[i]));
        m.insert(format!("n_bid_{}", i), json!(h.orders_at_levels.0[i]));
        m.insert(format!("n_ask_{}", i), json!(h.orders_at_levels.1[i]));
    }
    Value::Object(m)
}
fn df_orders_doc(e: &OrderBook) -> Value {
    let status = ["new", "active", "filled", "cancelled", "rejected"];
    let rows: Vec<Value> = e
        .get_orders()
        .into_iter()
        .map(|o| {
            let o = conv_order(o);
            json!([if o.bid { "bid" } else { "ask" }, status[o.status as usize], o.arr, o.end, o.vol, o.start_vol, o.price, o.trader, o.id])
        })
        .collect();
    json!({"columns": ["side", "status", "arr_time", "end_time", "vol", "start_vol", "price", "trader_id", "order_id"], "rows": rows})
}
fn df_trades_doc(e: &OrderBook) -> Value {
    let rows: Vec<Value> = e
        .get_trades()
        .iter()
        .map(|t| {
            let t = conv_trade(t);
            json!([t.t, if t.bid { "bid" } else { "ask" }, t.price, t.vol, t.active, t.passive])
        })
        .collect();
    json!({"columns": ["time", "side", "price", "vol", "active_id", "passive_id"], "rows": rows})
}

enum Exp {
    /// the call is not a valid request in the current state (e.g. refers to an order that does not exist): skipped on both sides
    Skip,
    Ret(Value),
    Raise(&'static str),
}

struct Mirror {
    objs: std::collections::BTreeMap<String, Obj>,
    /// member of the generator family the mirror's environments are seeded with (0 = Xoroshiro128**)
    gen_kind: usize,
}

fn side(bid: bool) -> Side {
    if bid {
        Side::Bid
    } else {
        Side::Ask
    }
}

impl Mirror {
    fn obs(&self, name: &str) -> Option<Value> {
        match self.objs.get(name)? {
            Obj::Book(b) => Some(book_obs_json(b)),
            Obj::Env(e, _) => Some(env_obs_json(e)),
            Obj::Numpy(e, _) => Some(numpy_obs_json(e)),
        }
    }
    fn book_of(&self, name: &str) -> Option<&OrderBook> {
        match self.objs.get(name)? {
            Obj::Book(b) => Some(b),
            Obj::Env(e, _) | Obj::Numpy(e, _) => Some(e.get_orderbook()),
        }
    }
    fn n_orders(&self, name: &str) -> usize {
        self.book_of(name).map(|b| b.get_orders().len()).unwrap_or(0)
    }

    fn exec(&mut self, c: &PyCall) -> Exp {
        let a = &c.a;
        macro_rules! ovf {
            ($e:expr) => {
                match $e {
                    Ok(x) => x,
                    Err(()) => return Exp::Raise("OverflowError"),
                }
            };
        }
        match c.k.as_str() {
            "new_book" => {
                let t = ovf!(u64_arg(&a[0]));
                let tick = ovf!(u32_arg(&a[1]));
                let trading = a.get(2).and_then(|x| x.as_bool()).unwrap_or(true);
                if tick == 0 {
                    return Exp::Skip;
                }
                self.objs.insert(c.o.clone(), Obj::Book(Box::new(OrderBook::new(t, tick, trading))));
                Exp::Ret(Value::Null)
            }
            "new_env" | "new_numpy" => {
                let seed = ovf!(u64_arg(&a[0]));
                let t = ovf!(u64_arg(&a[1]));
                let tick = ovf!(u32_arg(&a[2]));
                let step = ovf!(u64_arg(&a[3]));
                let trading = a.get(4).and_then(|x| x.as_bool()).unwrap_or(true);
                if tick == 0 {
                    return Exp::Skip;
                }
                let env = Box::new(Env::new(t, tick, step, trading));
                let rng = Gen::new(self.gen_kind, seed);
                self.objs.insert(c.o.clone(), if c.k == "new_env" { Obj::Env(env, rng) } else { Obj::Numpy(env, rng) });
                Exp::Ret(Value::Null)
            }
            "load_book" => {
                // the file was written by the Rust side (see `prepare`)
                let path = a[0].as_str().unwrap_or("");
                match OrderBook::load_json(path) {
                    Ok(b) => {
                        self.objs.insert(c.o.clone(), Obj::Book(Box::new(b)));
                        Exp::Ret(Value::Null)
                    }
                    Err(_) => Exp::Skip,
                }
            }
            "df_orders" => match self.book_of(&c.o) {
                Some(b) => Exp::Ret(df_orders_doc(b)),
                None => Exp::Skip,
            },
            "df_trades" => match self.book_of(&c.o) {
                Some(b) => Exp::Ret(df_trades_doc(b)),
                None => Exp::Skip,
            },
            "np_limit_orders" => {
                let n0 = self.n_orders(&c.o);
                let (e, _) = match self.objs.get_mut(&c.o) {
                    Some(Obj::Numpy(e, r)) => (e, r),
                    _ => return Exp::Skip,
                };
                let sides = a[0].as_array().cloned().unwrap_or_default();
                let mut ids = vec![];
                for i in 0..sides.len() {
                    let (v, t, p) = (a[1][i].as_u64().unwrap_or(1) as u32, a[2][i].as_u64().unwrap_or(0) as u32, a[3][i].as_u64().unwrap_or(0) as u32);
                    match e.place_order(side(sides[i].as_bool().unwrap_or(true)), v, t, Some(p)) {
                        Ok(id) => ids.push(id),
                        Err(_) => return Exp::Raise("ValueError"),
                    }
                }
                let _ = n0;
                Exp::Ret(json!(ids))
            }
            "np_cancellations" => {
                let n = self.n_orders(&c.o);
                let ids: Vec<usize> = a[0].as_array().map(|v| v.iter().filter_map(|x| x.as_u64()).map(|x| x as usize).collect()).unwrap_or_default();
                if ids.iter().any(|i| *i >= n) {
                    return Exp::Skip;
                }
                match self.objs.get_mut(&c.o) {
                    Some(Obj::Numpy(e, _)) => {
                        for i in ids {
                            e.cancel_order(i);
                        }
                        Exp::Ret(Value::Null)
                    }
                    _ => Exp::Skip,
                }
            }
            "np_instructions" => {
                let n = self.n_orders(&c.o);
                let acts = a[0].as_array().cloned().unwrap_or_default();
                for i in 0..acts.len() {
                    if acts[i].as_u64() == Some(2) && a[5][i].as_u64().unwrap_or(u64::MAX) as usize >= n {
                        return Exp::Skip;
                    }
                }
                let e = match self.objs.get_mut(&c.o) {
                    Some(Obj::Numpy(e, _)) => e,
                    _ => return Exp::Skip,
                };
                let mut out: Vec<u64> = vec![];
                for i in 0..acts.len() {
                    match acts[i].as_u64().unwrap_or(0) {
                        1 => match e.place_order(side(a[1][i].as_bool().unwrap_or(true)), a[2][i].as_u64().unwrap_or(1) as u32, a[3][i].as_u64().unwrap_or(0) as u32, Some(a[4][i].as_u64().unwrap_or(0) as u32)) {
                            Ok(id) => out.push(id as u64),
                            Err(_) => return Exp::Raise("ValueError"),
                        },
                        2 => {
                            e.cancel_order(a[5][i].as_u64().unwrap_or(0) as usize);
                            out.push(u64::MAX)
                        }
                        _ => out.push(u64::MAX),
                    }
                }
                Exp::Ret(json!(out))
            }
            "prop" => {
                let e = match self.objs.get(&c.o) {
                    Some(Obj::Env(e, _)) => e,
                    _ => return Exp::Skip,
                };
                let b = e.get_orderbook();
                Exp::Ret(match c.m.as_str() {
                    "time" => json!(b.get_time()),
                    "ask_vol" => json!(b.ask_vol()),
                    "best_ask_vol" => json!(b.ask_best_vol()),
                    "best_ask_vol_and_orders" => json!([b.ask_best_vol_and_orders().0, b.ask_best_vol_and_orders().1]),
                    "bid_vol" => json!(b.bid_vol()),
                    "best_bid_vol" => json!(b.bid_best_vol()),
                    "best_bid_vol_and_orders" => json!([b.bid_best_vol_and_orders().0, b.bid_best_vol_and_orders().1]),
                    "trade_vol" => json!(b.get_trade_vol()),
                    "bid_ask" => json!([b.bid_ask().0, b.bid_ask().1]),
                    _ => return Exp::Skip,
                })
            }
            "call" | "bulk" => self.exec_call(c),
            _ => Exp::Skip,
        }
    }

    fn exec_call(&mut self, c: &PyCall) -> Exp {
        let a = &c.a;
        let n = self.n_orders(&c.o);
        macro_rules! ovf {
            ($e:expr) => {
                match $e {
                    Ok(x) => x,
                    Err(()) => return Exp::Raise("OverflowError"),
                }
            };
        }
        macro_rules! id_arg {
            ($v:expr) => {{
                let id = ovf!(u64_arg($v)) as usize;
                if id >= n {
                    return Exp::Skip;
                }
                id
            }};
        }
        let m = c.m.as_str();
        // layout getters of the two environments (C19)
        match (self.objs.get(&c.o), m) {
            (Some(Obj::Env(e, _)), "level_1_data_array") | (Some(Obj::Numpy(e, _)), "level_1_data") => return Exp::Ret(json!(l1_doc(e))),
            (Some(Obj::Env(e, _)), "level_2_data_array") | (Some(Obj::Numpy(e, _)), "level_2_data") => return Exp::Ret(json!(l2_doc(e))),
            (Some(Obj::Env(e, _)), "get_market_data") | (Some(Obj::Numpy(e, _)), "get_market_data") => return Exp::Ret(market_data_doc(e)),
            _ => {}
        }
        match self.objs.get_mut(&c.o) {
            None => Exp::Skip,
            Some(Obj::Book(b)) => match m {
                "set_time" => {
                    let t = ovf!(u64_arg(&a[0]));
                    if t < b.get_time() {
                        return Exp::Skip;
                    }
                    b.set_time(t);
                    Exp::Ret(Value::Null)
                }
                "enable_trading" => {
                    b.enable_trading();
                    Exp::Ret(Value::Null)
                }
                "disable_trading" => {
                    b.disable_trading();
                    Exp::Ret(Value::Null)
                }
                "place_order" => {
                    let bid = a[0].as_bool().unwrap_or(true);
                    let vol = ovf!(u32_arg(&a[1]));
                    let tr = ovf!(u32_arg(&a[2]));
                    let price = ovf!(opt_u32(a.get(3)));
                    if vol == 0 {
                        return Exp::Skip;
                    }
                    match b.create_order(side(bid), vol, tr, price) {
                        Ok(id) => {
                            b.place_order(id);
                            Exp::Ret(json!(id))
                        }
                        Err(_) => Exp::Raise("ValueError"),
                    }
                }
                // (kind "bulk": n resting orders placed by one request, no observation in between - a book with tens of
                // thousands of orders, whose snapshot passes several MiB, at the cost of one request)
                "bulk_place" => {
                    let nn = ovf!(u64_arg(&a[0]));
                    let tick = ovf!(u32_arg(&a[1]));
                    let centre = ovf!(u32_arg(&a[2]));
                    let mut last = 0usize;
                    for i in 0..nn {
                        let (bid, vol, tr, price) = bulk_order(i, tick, centre);
                        match b.create_order(side(bid), vol, tr, Some(price)) {
                            Ok(id) => {
                                b.place_order(id);
                                last = id;
                            }
                            Err(_) => return Exp::Raise("ValueError"),
                        }
                    }
                    Exp::Ret(json!(last))
                }
                "cancel_order" => {
                    let id = id_arg!(&a[0]);
                    b.cancel_order(id);
                    Exp::Ret(Value::Null)
                }
                "modify_order" => {
                    let id = id_arg!(&a[0]);
                    let p = ovf!(opt_u32(a.get(1)));
                    let v = ovf!(opt_u32(a.get(2)));
                    if v == Some(0) {
                        return Exp::Skip;
                    }
                    b.modify_order(id, p, v);
                    Exp::Ret(Value::Null)
                }
                "order_status" => {
                    let id = id_arg!(&a[0]);
                    Exp::Ret(json!(crate::api::status_code(b.order(id).status)))
                }
                "ask_vol" => Exp::Ret(json!(b.ask_vol())),
                "best_ask_vol" => Exp::Ret(json!(b.ask_best_vol())),
                "best_ask_vol_and_orders" => Exp::Ret(json!([b.ask_best_vol_and_orders().0, b.ask_best_vol_and_orders().1])),
                "bid_vol" => Exp::Ret(json!(b.bid_vol())),
                "best_bid_vol" => Exp::Ret(json!(b.bid_best_vol())),
                "best_bid_vol_and_orders" => Exp::Ret(json!([b.bid_best_vol_and_orders().0, b.bid_best_vol_and_orders().1])),
                "bid_ask" => Exp::Ret(json!([b.bid_ask().0, b.bid_ask().1])),
                "get_orders" => Exp::Ret(json!(b.get_orders().into_iter().map(|o| order_json(&conv_order(o))).collect::<Vec<_>>())),
                "get_trades" => Exp::Ret(json!(b.get_trades().iter().map(|t| trade_json(&conv_trade(t))).collect::<Vec<_>>())),
                "save_json_snapshot" => Exp::Ret(Value::Null),
                _ => Exp::Skip,
            },
            Some(Obj::Env(e, rng)) | Some(Obj::Numpy(e, rng)) => match m {
                "enable_trading" => {
                    e.enable_trading();
                    Exp::Ret(Value::Null)
                }
                "disable_trading" => {
                    e.disable_trading();
                    Exp::Ret(Value::Null)
                }
                "step" => {
                    e.step(rng);
                    Exp::Ret(Value::Null)
                }
                "place_order" => {
                    let bid = a[0].as_bool().unwrap_or(true);
                    let vol = ovf!(u32_arg(&a[1]));
                    let tr = ovf!(u32_arg(&a[2]));
                    let price = ovf!(opt_u32(a.get(3)));
                    if vol == 0 {
                        return Exp::Skip;
                    }
                    match e.place_order(side(bid), vol, tr, price) {
                        Ok(id) => Exp::Ret(json!(id)),
                        Err(_) => Exp::Raise("ValueError"),
                    }
                }
                "cancel_order" => {
                    let id = id_arg!(&a[0]);
                    e.cancel_order(id);
                    Exp::Ret(Value::Null)
                }
                "modify_order" => {
                    let id = id_arg!(&a[0]);
                    let p = ovf!(opt_u32(a.get(1)));
                    let v = ovf!(opt_u32(a.get(2)));
                    if v == Some(0) {
                        return Exp::Skip;
                    }
                    e.modify_order(id, p, v);
                    Exp::Ret(Value::Null)
                }
                "order_status" => {
                    let id = id_arg!(&a[0]);
                    Exp::Ret(json!(crate::api::status_code(e.order_status(id))))
                }
                "get_orders" => Exp::Ret(json!(e.get_orders().into_iter().map(|o| order_json(&conv_order(o))).collect::<Vec<_>>())),
                "get_trades" => Exp::Ret(json!(e.get_trades().iter().map(|t| trade_json(&conv_trade(t))).collect::<Vec<_>>())),
                "get_prices" => Exp::Ret(json!([e.get_prices().0, e.get_prices().1])),
                "get_volumes" => Exp::Ret(json!([e.get_volumes().0, e.get_volumes().1])),
                "get_touch_volumes" => Exp::Ret(json!([e.get_touch_volumes().0, e.get_touch_volumes().1])),
                "get_touch_order_counts" => Exp::Ret(json!([e.get_touch_order_counts().0, e.get_touch_order_counts().1])),
                "get_trade_volumes" => Exp::Ret(json!(e.get_trade_vols())),
                _ => Exp::Skip,
            },
        }
    }
}

// ---------------------------------------------------------------------------------------------
// execution of one scenario
// ---------------------------------------------------------------------------------------------

fn first_diff(path: &str, a: &Value, b: &Value) -> Option<(String, String, String)> {
    match (a, b) {
        (Value::Array(x), Value::Array(y)) => {
            if x.len() != y.len() {
                return Some((format!("{}.len", path), x.len().to_string(), y.len().to_string()));
            }
            for (i, (p, q)) in x.iter().zip(y.iter()).enumerate() {
                if let Some(d) = first_diff(&format!("{}[{}]", path, i), p, q) {
                    return Some(d);
                }
            }
            None
        }
        (Value::Object(x), Value::Object(y)) => {
            let kx: Vec<&String> = x.keys().collect();
            let ky: Vec<&String> = y.keys().collect();
            if kx != ky {
                let missing: Vec<&&String> = kx.iter().filter(|k| !y.contains_key(**k)).collect();
                let extra: Vec<&&String> = ky.iter().filter(|k| !x.contains_key(**k)).collect();
                return Some((format!("{}.keys", path), format!("missing {:?}", missing), format!("unexpected {:?}", extra)));
            }
            for k in kx {
                if let Some(d) = first_diff(&format!("{}.{}", path, k), &x[k], &y[k]) {
                    return Some(d);
                }
            }
            None
        }
        _ => {
            let same = match (a.as_f64(), b.as_f64()) {
                (Some(p), Some(q)) if a.is_number() && b.is_number() => {
                    // integers compare exactly (u64 range), floats bitwise
                    match (a.as_u64(), b.as_u64(), a.as_i64(), b.as_i64()) {
                        (Some(m), Some(n), _, _) => m == n,
                        (_, _, Some(m), Some(n)) => m == n,
                        _ => p == q,
                    }
                }
                _ => a == b,
            };
            if same {
                None
            } else {
                Some((path.to_string(), a.to_string(), b.to_string()))
            }
        }
    }
}

/// the i-th order of a bulk placement (the Python driver computes the same): non-crossing, 40 price levels per side
pub fn bulk_order(i: u64, tick: u32, centre: u32) -> (bool, u32, u32, u32) {
    let bid = i % 2 == 0;
    let k = ((i / 2) % 40) as u32;
    let price = if bid { (centre - 1 - k) * tick } else { (centre + 1 + k) * tick };
    (bid, 1 + (i % 9) as u32, (i % 50) as u32, price)
}

fn is_layout_call(c: &PyCall) -> bool {
    matches!(c.m.as_str(), "level_1_data_array" | "level_2_data_array" | "level_1_data" | "level_2_data" | "get_market_data") || c.k == "df_orders" || c.k == "df_trades"
}

/// No property names the algorithm of the generator a `StepEnv` builds from its seed: a script whose mirror (built with
/// the pinned tree's Xoroshiro128**) diverges after an environment step is re-executed with every other member of the
/// generator family before anything is reported; if one of them agrees call by call, that run is the verdict.
pub fn execute(s: &W5Scn, run_dir: &str) -> RunOutcome {
    let first = execute_kind(s, run_dir, 0);
    if first.violation.is_none() || !s.calls.iter().any(|c| c.m == "step") {
        return first;
    }
    for kind in 1..crate::rng::GEN_NAMES.len() {
        let mut o = execute_kind(s, run_dir, kind);
        if o.violation.is_none() {
            o.stats.probe("stepenv_generator_other_family_member");
            return o;
        }
    }
    first
}

fn execute_kind(s: &W5Scn, run_dir: &str, gen_kind: usize) -> RunOutcome {
    let mut stats = RunStats::default();
    let mut mirror = Mirror { objs: Default::default(), gen_kind };
    let mk = |class: &str, i: usize, field: &str, exp: String, act: String| Violation::new(&s.property, class, i, field, exp, act);
    let mut viol: Option<Violation> = None;
    let mut files: Vec<String> = vec![];
    let fix_path = |v: &Value| -> Value {
        // snapshot paths are relative names resolved inside the run's scratch directory
        match v.as_str() {
            Some(p) if p.starts_with("@") => json!(format!("{}/{}", run_dir, &p[1..])),
            _ => v.clone(),
        }
    };
    let mut first = true;
    'outer: for (i, c0) in s.calls.iter().enumerate() {
        let mut c = c0.clone();
        c.a = c.a.iter().map(&fix_path).collect();
        // Rust -> Python snapshot: the Rust side writes the file the Python side is about to load
        if c.k == "load_book" {
            let src = c.m.clone(); // name of the object to snapshot
            let path = c.a[0].as_str().unwrap_or("").to_string();
            let pretty = c.a.get(1).and_then(|x| x.as_bool()).unwrap_or(false);
            match mirror.book_of(&src) {
                Some(b) => {
                    if b.save_json(&path, pretty).is_err() {
                        continue;
                    }
                    files.push(path.clone());
                    stats.fault("snapshot_rust_to_python");
                }
                None => continue,
            }
            c.a.truncate(1);
        }
        let pre_obs = mirror.obs(&c.o);
        let exp = match guard(|| mirror.exec(&c)) {
            Ok(e) => e,
            Err(msg) => {
                viol = Some(mk("panic", i, &format!("{}.{}", c.o, c.m), "no abort in the Rust core".into(), msg));
                break;
            }
        };
        let (exp_res, raised): (Value, bool) = match exp {
            Exp::Skip => {
                stats.skipped_ops += 1;
                continue;
            }
            Exp::Ret(v) => (json!({"r": v}), false),
            Exp::Raise(e) => (json!({"e": e}), true),
        };
        let obs_name = c.o.clone();
        let mut req_call = serde_json::to_value(&c).unwrap();
        req_call["obs"] = json!(obs_name);
        let req = json!({"id": i, "reset": first, "calls": [req_call]});
        first = false;
        let n_int = if s.second_hashseed { 2 } else { 1 };
        let mut answers: Vec<Value> = vec![];
        for which in 0..n_int {
            match with_py(which, |p| p.request(&req)) {
                Ok(v) => answers.push(v),
                Err(e) => {
                    viol = Some(mk("python-diverged", i, &format!("{}.{}", c.o, c.m), exp_res.to_string(), e).detail("the interpreter died or did not answer while executing this call".into()));
                    break 'outer;
                }
            }
        }
        stats.ops += 1;
        let got = &answers[0]["results"][0];
        if answers.len() == 2 {
            stats.fault("second_pythonhashseed");
            if answers[0]["results"] != answers[1]["results"] {
                viol = Some(mk("python-diverged", i, &format!("{}.{}", c.o, c.m), answers[0]["results"].to_string(), answers[1]["results"].to_string()).detail("two interpreters with different PYTHONHASHSEED answered differently".into()));
                break;
            }
        }
        let layout = is_layout_call(&c);
        let class = if layout { "layout-mismatch" } else { "python-diverged" };
        // value / exception class
        if raised {
            stats.fault(if exp_res["e"] == "ValueError" { "offgrid_price_valueerror" } else { "out_of_range_int_overflowerror" });
            if got.get("e").and_then(|x| x.as_str()) != exp_res["e"].as_str() {
                viol = Some(mk(class, i, &format!("{}.{}({})", c.o, if c.m.is_empty() { &c.k } else { &c.m }, Value::Array(c.a.clone())), exp_res.to_string(), got.to_string()));
                break;
            }
        } else {
            if got.get("e").is_some() {
                viol = Some(mk(class, i, &format!("{}.{}({})", c.o, if c.m.is_empty() { &c.k } else { &c.m }, Value::Array(c.a.clone())), exp_res.to_string(), got.to_string()));
                break;
            }
            if let Some(d) = first_diff("", &exp_res["r"], got.get("r").unwrap_or(&Value::Null)) {
                viol = Some(
                    mk(class, i, &format!("{}.{}({}){}", c.o, if c.m.is_empty() { &c.k } else { &c.m }, Value::Array(c.a.clone()), d.0), d.1, d.2)
                        .detail(if layout { "element differs from the quantity the documentation assigns to this index / key / column".into() } else { "Python return value differs from the Rust core".into() }),
                );
                break;
            }
            if layout {
                stats.probe("layout_calls_checked");
            }
        }
        // complete observation after the call
        if let Some(eo) = mirror.obs(&c.o) {
            if let Some(go) = got.get("obs") {
                if let Some(d) = first_diff("obs", &eo, go) {
                    let cls = if raised { "python-error-left-trace" } else { "python-diverged" };
                    viol = Some(mk(cls, i, &format!("after {}.{}: {}", c.o, c.m, d.0), d.1, d.2).detail("complete Python-side observation differs from the Rust core after this call".into()));
                    break;
                }
            }
            if raised {
                // an error must leave the object unchanged (the mirror did not act; compare with the observation before)
                if let Some(po) = &pre_obs {
                    if let Some(go) = got.get("obs") {
                        if let Some(d) = first_diff("obs", po, go) {
                            viol = Some(mk("python-error-left-trace", i, &format!("after failing {}.{}: {}", c.o, c.m, d.0), d.1, d.2));
                            break;
                        }
                    }
                }
            }
        }
        // Python -> Rust snapshot: load what Python just wrote and compare with the mirror
        if c.m == "save_json_snapshot" && !raised {
            let path = c.a[0].as_str().unwrap_or("").to_string();
            files.push(path.clone());
            stats.fault("snapshot_python_to_rust");
            match guard(|| OrderBook::<10>::load_json(&path)) {
                Ok(Ok(b)) => {
                    let lo = book_obs_json(&b);
                    if let Some(eo) = mirror.obs(&c.o) {
                        if let Some(d) = first_diff("obs", &eo, &lo) {
                            viol = Some(mk("python-diverged", i, &format!("snapshot written by Python, loaded in Rust: {}", d.0), d.1, d.2));
                            break;
                        }
                    }
                    // drive on with the object loaded from Python's file
                    mirror.objs.insert(c.o.clone(), Obj::Book(Box::new(b)));
                }
                Ok(Err(e)) => {
                    viol = Some(mk("python-diverged", i, "snapshot written by Python", "loads in Rust".into(), e.to_string()));
                    break;
                }
                Err(m) => {
                    viol = Some(mk("panic", i, "load_json", "no abort".into(), m));
                    break;
                }
            }
        }
    }
    for f in files {
        let _ = std::fs::remove_file(f);
    }
    let mut h = Fnv::new();
    for name in mirror.objs.keys() {
        if let Some(o) = mirror.obs(name) {
            h.bytes(o.to_string().as_bytes());
        }
    }
    stats.end_digest = h.0;
    for (_, o) in mirror.objs.iter() {
        let b = match o {
            Obj::Book(b) => b.as_ref(),
            Obj::Env(e, _) | Obj::Numpy(e, _) => e.get_orderbook(),
        };
        if b.bid_vol() != b.ask_vol() && b.bid_best_vol_and_orders() != b.ask_best_vol_and_orders() && b.bid_vol() > 0 && b.ask_vol() > 0 {
            stats.probe("asymmetric_two_sided_book_at_end");
        }
        if !b.get_trades().is_empty() {
            stats.probe("object_with_trades");
        }
        if b.bid_levels()[9].0 > 0 || b.ask_levels()[9].0 > 0 {
            stats.probe("deepest_level_populated");
        }
        stats.sim_time += b.get_time();
    }
    RunOutcome { violation: viol, stats }
}
