//! Reference matching engine `M` (specification) — a sorted vector per side, no maps, no price keys.
//! `Tie::KeyCollision` is the known-defect twin used only to *classify* C05 divergences: it keeps the
//! two maps of the pinned `side.rs` with exactly their overwrite / remove semantics.
use crate::obs::*;
use serde::{Deserialize, Serialize};
use std::collections::BTreeMap;

#[derive(Clone, Copy, PartialEq, Eq, Debug, Serialize, Deserialize)]
pub enum Tie {
    Fifo,
    KeyCollision,
}

#[derive(Clone, Debug)]
pub struct MOrder {
    pub o: OOrder,
    pub is_market: bool,
    pub qtime: u64,
    pub qseq: u64,
}

#[derive(Clone, Debug, Default)]
struct CSide {
    bid: bool,
    vol: u32,
    volumes: BTreeMap<u32, (u32, u32)>,
    orders: BTreeMap<(u32, u64), usize>,
}

impl CSide {
    fn pk(&self, price: u32) -> u32 {
        if self.bid {
            PMAX - price
        } else {
            price
        }
    }
    fn unpk(&self, k: u32) -> u32 {
        if self.bid {
            PMAX - k
        } else {
            k
        }
    }
}

#[derive(Clone, Debug)]
enum SideImpl {
    /// resting order ids sorted by (price better first, qtime, qseq)
    Fifo(Vec<usize>),
    Coll(CSide),
}

#[derive(Clone, Debug)]
pub struct Model {
    pub t: u64,
    pub tick: u32,
    pub trading: bool,
    pub trade_vol: u32,
    pub orders: Vec<MOrder>,
    pub trades: Vec<OTrade>,
    bids: SideImpl,
    asks: SideImpl,
    qseq: u64,
    pub tie: Tie,
    /// queue insertions that shared (side, price, qtime) with an order resting at that moment
    pub collisions: u64,
    /// set when the KeyCollision twin hits an `unwrap()` on `None` or an arithmetic underflow the
    /// pinned code would panic on (overflow checks are enabled in the simulator build)
    pub poisoned: Option<String>,
    pub ever_disabled: bool,
}

impl Model {
    pub fn new(t: u64, tick: u32, trading: bool, tie: Tie) -> Self {
        let mk = |bid: bool| match tie {
            Tie::Fifo => SideImpl::Fifo(Vec::new()),
            Tie::KeyCollision => SideImpl::Coll(CSide { bid, ..Default::default() }),
        };
        Model {
            t,
            tick,
            trading,
            trade_vol: 0,
            orders: Vec::new(),
            trades: Vec::new(),
            bids: mk(true),
            asks: mk(false),
            qseq: 0,
            tie,
            collisions: 0,
            poisoned: None,
            ever_disabled: !trading,
        }
    }

    fn poison(&mut self, why: &str) {
        if self.poisoned.is_none() {
            self.poisoned = Some(why.to_string());
        }
    }

    // ---- side primitives -------------------------------------------------------------------

    /// Priority of a resting order: price, then arrival at the level. A newly queued order rests "behind every
    /// order already at that price" (C01), whatever its timestamp: with a monotone clock this is time priority;
    /// with equal timestamps or a clock pulled back by an oversized step (C05) it is the order of queuing.
    fn rank(o: &MOrder) -> (u32, u64) {
        let pr = if o.o.bid { PMAX - o.o.price } else { o.o.price };
        (pr, o.qseq)
    }

    fn side_insert(&mut self, id: usize) {
        let o = self.orders[id].clone();
        // collision bookkeeping (semantics independent)
        let clash = self.resting_ids(o.o.bid).iter().any(|j| {
            let r = &self.orders[*j];
            *j != id && r.o.price == o.o.price && r.qtime == o.qtime
        });
        if clash {
            self.collisions += 1;
        }
        let orders = &self.orders;
        let side = if o.o.bid { &mut self.bids } else { &mut self.asks };
        match side {
            SideImpl::Fifo(v) => {
                let key = Model::rank(&o);
                let pos = v.iter().position(|j| Model::rank(&orders[*j]) > key).unwrap_or(v.len());
                v.insert(pos, id);
            }
            SideImpl::Coll(c) => {
                let pk = c.pk(o.o.price);
                c.orders.insert((pk, o.qtime), id);
                // (the defect twin keeps volume of orphaned orders on its books, so its totals may pass 2^32 on histories that
                // are valid for the specification: the pinned code would abort there with overflow checks - record that)
                let mut over = false;
                match c.volumes.get_mut(&pk) {
                    Some(v) => {
                        match v.0.checked_add(o.o.vol) {
                            Some(x) => v.0 = x,
                            None => over = true,
                        }
                        v.1 += 1;
                    }
                    None => {
                        c.volumes.insert(pk, (o.o.vol, 1));
                    }
                }
                match c.vol.checked_add(o.o.vol) {
                    Some(x) => c.vol = x,
                    None => over = true,
                }
                if over {
                    self.poison("side volume overflow in the key-collision twin");
                }
            }
        }
    }

    /// remove order `id` (with remaining volume `vol` to take off the books) from its side
    fn side_remove(&mut self, id: usize, vol: u32) {
        let o = self.orders[id].clone();
        let side = if o.o.bid { &mut self.bids } else { &mut self.asks };
        let mut bad: Option<&str> = None;
        match side {
            SideImpl::Fifo(v) => {
                if let Some(p) = v.iter().position(|j| *j == id) {
                    v.remove(p);
                }
            }
            SideImpl::Coll(c) => {
                let pk = c.pk(o.o.price);
                c.orders.remove(&(pk, o.qtime));
                match c.volumes.get_mut(&pk) {
                    None => bad = Some("remove_order: unwrap on missing price level"),
                    Some(v) => {
                        match v.0.checked_sub(vol) {
                            Some(x) => v.0 = x,
                            None => bad = Some("remove_order: level volume underflow"),
                        }
                        match v.1.checked_sub(1) {
                            Some(x) => v.1 = x,
                            None => bad = Some("remove_order: level count underflow"),
                        }
                        if v.1 == 0 {
                            c.volumes.remove(&pk);
                        }
                    }
                }
                match c.vol.checked_sub(vol) {
                    Some(x) => c.vol = x,
                    None => bad = Some("remove_order: side volume underflow"),
                }
            }
        }
        if let Some(b) = bad {
            self.poison(b);
        }
    }

    fn side_reduce(&mut self, bid: bool, price: u32, vol: u32) {
        let side = if bid { &mut self.bids } else { &mut self.asks };
        let mut bad: Option<&str> = None;
        if let SideImpl::Coll(c) = side {
            let pk = c.pk(price);
            match c.volumes.get_mut(&pk) {
                None => bad = Some("remove_vol: unwrap on missing price level"),
                Some(v) => match v.0.checked_sub(vol) {
                    Some(x) => v.0 = x,
                    None => bad = Some("remove_vol: level volume underflow"),
                },
            }
            match c.vol.checked_sub(vol) {
                Some(x) => c.vol = x,
                None => bad = Some("remove_vol: side volume underflow"),
            }
        }
        if let Some(b) = bad {
            self.poison(b);
        }
    }

    pub fn resting_ids(&self, bid: bool) -> Vec<usize> {
        match if bid { &self.bids } else { &self.asks } {
            SideImpl::Fifo(v) => v.clone(),
            SideImpl::Coll(_) => self.orders.iter().filter(|o| o.o.status == ACTIVE && o.o.bid == bid).map(|o| o.o.id).collect(),
        }
    }

    fn head(&self, bid: bool) -> Option<usize> {
        match if bid { &self.bids } else { &self.asks } {
            SideImpl::Fifo(v) => v.first().copied(),
            SideImpl::Coll(c) => c.orders.iter().next().map(|(_, v)| *v),
        }
    }

    pub fn best_price(&self, bid: bool) -> u32 {
        match if bid { &self.bids } else { &self.asks } {
            SideImpl::Fifo(v) => match v.first() {
                Some(i) => self.orders[*i].o.price,
                None => {
                    if bid {
                        0
                    } else {
                        PMAX
                    }
                }
            },
            SideImpl::Coll(c) => match c.orders.iter().next() {
                Some((k, _)) => c.unpk(k.0),
                None => c.unpk(PMAX),
            },
        }
    }

    pub fn total_vol(&self, bid: bool) -> u32 {
        match if bid { &self.bids } else { &self.asks } {
            SideImpl::Fifo(v) => v.iter().map(|i| self.orders[*i].o.vol).sum(),
            SideImpl::Coll(c) => c.vol,
        }
    }

    pub fn at_price(&self, bid: bool, price: u32) -> Lv {
        match if bid { &self.bids } else { &self.asks } {
            SideImpl::Fifo(v) => {
                let mut r = (0u32, 0u32);
                for i in v {
                    let o = &self.orders[*i].o;
                    if o.price == price {
                        r.0 += o.vol;
                        r.1 += 1;
                    }
                }
                r
            }
            SideImpl::Coll(c) => c.volumes.get(&c.pk(price)).copied().unwrap_or((0, 0)),
        }
    }

    pub fn best_vol_orders(&self, bid: bool) -> Lv {
        match if bid { &self.bids } else { &self.asks } {
            SideImpl::Fifo(v) => match v.first() {
                Some(i) => self.at_price(bid, self.orders[*i].o.price),
                None => (0, 0),
            },
            SideImpl::Coll(c) => c.volumes.iter().next().map(|(_, v)| *v).unwrap_or((0, 0)),
        }
    }

    /// is there an order resting on `bid` side at `price` queued at time `qtime` (other than `except`)?
    pub fn has_resting_at(&self, bid: bool, price: u32, qtime: u64, except: Option<usize>) -> bool {
        self.orders.iter().any(|o| o.o.status == ACTIVE && o.o.bid == bid && o.o.price == price && o.qtime == qtime && Some(o.o.id) != except)
    }

    // ---- operations ------------------------------------------------------------------------

    pub fn set_time(&mut self, t: u64) {
        self.t = t;
    }
    pub fn enable_trading(&mut self) {
        self.trading = true;
    }
    pub fn disable_trading(&mut self) {
        self.trading = false;
        self.ever_disabled = true;
    }
    pub fn reset_trade_vol(&mut self) {
        self.trade_vol = 0;
    }

    pub fn create(&mut self, bid: bool, vol: u32, trader: u32, price: Option<u32>) -> Result<usize, ()> {
        if let Some(p) = price {
            if p % self.tick != 0 {
                return Err(());
            }
        }
        let id = self.orders.len();
        let (p, is_market) = match price {
            Some(p) => (p, false),
            None => (if bid { PMAX } else { 0 }, true),
        };
        self.orders.push(MOrder {
            o: OOrder { bid, status: NEW, arr: self.t, end: TMAX, vol, start_vol: vol, price: p, trader, id },
            is_market,
            qtime: 0,
            qseq: 0,
        });
        Ok(id)
    }

    fn admits(agg_bid: bool, agg_price: u32, best_opposite: u32) -> bool {
        if agg_bid {
            agg_price >= best_opposite
        } else {
            agg_price <= best_opposite
        }
    }

    /// match order `id` as the aggressor against the opposite side
    fn do_match(&mut self, id: usize) {
        let agg_bid = self.orders[id].o.bid;
        loop {
            if self.poisoned.is_some() {
                return;
            }
            let a = self.orders[id].o;
            if a.vol == 0 {
                break;
            }
            if !Model::admits(agg_bid, a.price, self.best_price(!agg_bid)) {
                break;
            }
            let pid = match self.head(!agg_bid) {
                Some(p) => p,
                None => break,
            };
            let p = self.orders[pid].o;
            let fill = a.vol.min(p.vol);
            self.orders[id].o.vol -= fill;
            self.orders[pid].o.vol -= fill;
            self.trades.push(OTrade { t: self.t, bid: p.bid, price: p.price, vol: fill, active: id, passive: pid });
            match self.trade_vol.checked_add(fill) {
                Some(x) => self.trade_vol = x,
                None => {
                    self.poison("trade_vol overflow");
                    return;
                }
            }
            if self.orders[pid].o.vol == 0 {
                self.orders[pid].o.status = FILLED;
                self.orders[pid].o.end = self.t;
                self.side_remove(pid, fill);
            } else {
                self.side_reduce(p.bid, p.price, fill);
            }
            if self.orders[id].o.vol == 0 {
                self.orders[id].o.status = FILLED;
                self.orders[id].o.end = self.t;
            }
        }
    }

    fn enqueue(&mut self, id: usize) {
        self.qseq += 1;
        self.orders[id].qtime = self.t;
        self.orders[id].qseq = self.qseq;
        self.side_insert(id);
    }

    pub fn place(&mut self, id: usize) {
        if self.orders[id].o.status != NEW {
            return;
        }
        self.orders[id].o.arr = self.t;
        if self.orders[id].is_market {
            if !self.trading {
                self.orders[id].o.status = REJECTED;
                self.orders[id].o.end = self.t;
            } else {
                self.orders[id].o.status = ACTIVE; // transient, mirrors nothing observable
                self.do_match(id);
                if self.orders[id].o.status != FILLED {
                    self.orders[id].o.status = CANCELLED;
                    self.orders[id].o.end = self.t;
                }
            }
        } else {
            self.orders[id].o.status = ACTIVE;
            if self.trading {
                self.do_match(id);
            }
            if self.orders[id].o.status != FILLED {
                self.enqueue(id);
            }
        }
    }

    pub fn cancel(&mut self, id: usize) {
        if self.orders[id].o.status != ACTIVE {
            return;
        }
        let v = self.orders[id].o.vol;
        self.orders[id].o.status = CANCELLED;
        self.orders[id].o.end = self.t;
        // status already changed; side_remove works from the stored price/qtime
        self.side_remove(id, v);
    }

    pub fn modify(&mut self, id: usize, p: Option<u32>, v: Option<u32>) {
        if self.orders[id].o.status != ACTIVE {
            return;
        }
        // a price off the tick grid is not a valid price (C12): such a request is ignored
        if let Some(np) = p {
            if np % self.tick != 0 {
                return;
            }
        }
        let cur = self.orders[id].o;
        match (p, v) {
            (None, None) => {}
            (None, Some(nv)) if nv < cur.vol => {
                self.orders[id].o.vol = nv;
                self.side_reduce(cur.bid, cur.price, cur.vol - nv);
            }
            _ => {
                let np = p.unwrap_or(cur.price);
                let nv = v.unwrap_or(cur.vol);
                self.side_remove(id, cur.vol);
                self.orders[id].o.price = np;
                self.orders[id].o.vol = nv;
                if self.trading {
                    self.do_match(id);
                }
                if self.orders[id].o.status != FILLED {
                    self.enqueue(id);
                }
            }
        }
    }

    /// What a snapshot reload does to the engine: nothing under the specification; under the
    /// KeyCollision twin the side indexes are rebuilt by inserting the active orders in id order.
    pub fn reload(&mut self) {
        if self.tie == Tie::KeyCollision {
            self.bids = SideImpl::Coll(CSide { bid: true, ..Default::default() });
            self.asks = SideImpl::Coll(CSide { bid: false, ..Default::default() });
            let ids: Vec<usize> = self.orders.iter().filter(|o| o.o.status == ACTIVE).map(|o| o.o.id).collect();
            let c = self.collisions;
            for id in ids {
                self.side_insert(id);
            }
            self.collisions = c;
        }
    }

    // ---- views -----------------------------------------------------------------------------

    pub fn levels(&self, bid: bool, n: usize) -> Vec<Lv> {
        let start = self.best_price(bid);
        (0..n)
            .map(|i| {
                let d = (i as u32).wrapping_mul(self.tick);
                let p = if bid { start.wrapping_sub(d) } else { start.wrapping_add(d) };
                self.at_price(bid, p)
            })
            .collect()
    }

    pub fn obs(&self, levels: usize, with_mid: bool) -> BookObs {
        let bid = self.best_price(true);
        let ask = self.best_price(false);
        let bb = self.best_vol_orders(true);
        let ab = self.best_vol_orders(false);
        let bl = self.levels(true, levels);
        let al = self.levels(false, levels);
        let bv = self.total_vol(true);
        let av = self.total_vol(false);
        BookObs {
            t: self.t,
            trade_vol: self.trade_vol,
            bid_ask: (bid, ask),
            bid_vol: bv,
            ask_vol: av,
            bid_best_vol: bb.0,
            ask_best_vol: ab.0,
            bid_best: bb,
            ask_best: ab,
            bid_levels: bl.clone(),
            ask_levels: al.clone(),
            l1: L1 {
                bid_price: bid,
                ask_price: ask,
                bid_vol: bv,
                ask_vol: av,
                bid_touch_vol: bb.0,
                ask_touch_vol: ab.0,
                bid_touch_orders: bb.1,
                ask_touch_orders: ab.1,
            },
            l2: L2 { bid_price: bid, ask_price: ask, bid_vol: bv, ask_vol: av, bid_levels: bl, ask_levels: al },
            orders: self.orders.iter().map(|o| o.o).collect(),
            trades: self.trades.clone(),
            mid: if with_mid { Some((bid as f64 + ask as f64) / 2.0) } else { None },
        }
    }

    pub fn l2(&self, levels: usize) -> L2 {
        L2 {
            bid_price: self.best_price(true),
            ask_price: self.best_price(false),
            bid_vol: self.total_vol(true),
            ask_vol: self.total_vol(false),
            bid_levels: self.levels(true, levels),
            ask_levels: self.levels(false, levels),
        }
    }

    /// Canonical digest of the complete (including hidden) model state, for belief-set de-duplication.
    /// `with_qtime = false` identifies states that differ only in the absolute queue times of resting orders
    /// (sound when the clock is monotone: a later insertion always goes behind every resting order at its price,
    /// so the future depends on the queue *order* only).
    pub fn hidden_digest(&self, with_qtime: bool) -> u64 {
        let mut h = Fnv::new();
        h.u64(self.t);
        h.u64(self.trading as u64);
        h.u64(self.trade_vol as u64);
        for o in &self.orders {
            h.order(&o.o);
            if o.o.status == ACTIVE && with_qtime {
                h.u64(o.qtime);
            }
        }
        for side in [&self.bids, &self.asks] {
            match side {
                SideImpl::Fifo(v) => {
                    for i in v {
                        h.u64(*i as u64);
                    }
                }
                SideImpl::Coll(c) => {
                    // the maps themselves are the hidden state of the key-collision twin
                    h.u64(c.vol as u64);
                    for (k, v) in &c.orders {
                        h.u64(k.0 as u64);
                        h.u64(k.1);
                        h.u64(*v as u64);
                    }
                    h.u64(u64::MAX - 1);
                    for (k, v) in &c.volumes {
                        h.u64(*k as u64);
                        h.u64(v.0 as u64);
                        h.u64(v.1 as u64);
                    }
                }
            }
            h.u64(u64::MAX);
        }
        h.u64(self.trades.len() as u64);
        if let Some(t) = self.trades.last() {
            h.trade(t);
        }
        h.u64(self.poisoned.is_some() as u64);
        h.0
    }

    /// Queue order (ids, best priority first) of one side.
    pub fn queue(&self, bid: bool) -> Vec<usize> {
        match if bid { &self.bids } else { &self.asks } {
            SideImpl::Fifo(v) => v.clone(),
            SideImpl::Coll(c) => c.orders.values().copied().collect(),
        }
    }
}
