//! W3 executor: drives the real `Env<L>` / `MarketEnv<A,L>` with an explicit list of submissions and steps,
//! the generator handed to `step` being the harness's `SeamRng`. The processing order of a batch is not
//! observable directly (and no hook is added): it is *inferred* after each step from arrival / end
//! timestamps and trades, and the set of all reference-engine states consistent with everything observed
//! so far (the belief set) is carried from step to step (DESIGN §3.5).
use crate::api::*;
use crate::core::*;
use crate::model::{Model, Tie};
use crate::obs::*;
use crate::rng::{steer_shuffle, SeamRng};
use crate::w3ops::*;

pub const BELIEF_CAP: usize = 256;
pub const MAX_FREE: usize = 5;
pub const MAX_BATCH: usize = 70_000;
/// from this queue length on the complete observation is taken only at every SPARSE_EVERY-th submission (and always
/// before the step / a trading switch): the state expected in between is tracked and compared at the next one
pub const SPARSE_FROM: usize = 96;
pub const SPARSE_EVERY: usize = 64;
pub const LEAF_CAP: usize = 20_000;

#[derive(Clone, Debug, PartialEq)]
pub enum Instr {
    New { a: usize, id: usize },
    Cancel { a: usize, id: usize },
    Modify { a: usize, id: usize, p: Option<u32>, v: Option<u32> },
}

impl Instr {
    fn asset(&self) -> usize {
        match self {
            Instr::New { a, .. } | Instr::Cancel { a, .. } | Instr::Modify { a, .. } => *a,
        }
    }
    fn target(&self) -> usize {
        match self {
            Instr::New { id, .. } | Instr::Cancel { id, .. } | Instr::Modify { id, .. } => *id,
        }
    }
    fn is_new(&self) -> bool {
        matches!(self, Instr::New { .. })
    }
}

pub fn apply_instr(ms: &mut [Model], ins: &Instr) {
    match ins {
        Instr::New { a, id } => ms[*a].place(*id),
        Instr::Cancel { a, id } => ms[*a].cancel(*id),
        Instr::Modify { a, id, p, v } => ms[*a].modify(*id, *p, *v),
    }
}

fn has(cfg: &W3Cfg, f: u32) -> bool {
    cfg.monitors & f != 0
}

fn terminal(s: u8) -> bool {
    s == FILLED || s == CANCELLED || s == REJECTED
}

/// What one step revealed, in the form the schedule search needs.
pub struct StepObs<'a> {
    pub start: u64,
    pub step_size: u64,
    pub n: usize,
    pub post: &'a [BookObs],
    /// position -> instruction index forced by the arrival time of a new order
    pub pins: Vec<Option<usize>>,
    /// [position][asset] -> trades stamped start+position appended during this step
    pub trades_at: Vec<Vec<Vec<OTrade>>>,
    /// [position] -> (asset, id) of orders that reached a terminal status stamped start+position in this step
    pub ended_at: Vec<Vec<(usize, usize)>>,
}

impl<'a> StepObs<'a> {
    /// `Err(reason)` when the observation cannot belong to any schedule at all
    pub fn build(start: u64, step_size: u64, pending: &[Instr], pre: &[BookObs], post: &'a [BookObs]) -> Result<StepObs<'a>, String> {
        let n = pending.len();
        let assets = post.len();
        let mut pins: Vec<Option<usize>> = vec![None; n];
        for (k, ins) in pending.iter().enumerate() {
            if let Instr::New { a, id } = ins {
                let o = post[*a].orders.get(*id).ok_or_else(|| format!("order ({},{}) vanished", a, id))?;
                let pos = o.arr.checked_sub(start).filter(|p| (*p as usize) < n && *p < u64::MAX);
                match pos {
                    None => return Err(format!("new order ({},{}) has arrival time {} outside [start, start+n) = [{}, {})", a, id, o.arr, start, start + n as u64)),
                    Some(p) => {
                        if let Some(other) = pins[p as usize] {
                            return Err(format!(
                                "new orders #{} and #{} of the batch both carry arrival time start+{} (one of them was not processed exactly once)",
                                other, k, p
                            ));
                        }
                        pins[p as usize] = Some(k);
                    }
                }
            }
        }
        let mut trades_at = vec![vec![Vec::new(); assets]; n.max(1)];
        for a in 0..assets {
            let from = pre[a].trades.len().min(post[a].trades.len());
            if post[a].trades.len() < pre[a].trades.len() || post[a].trades[..from] != pre[a].trades[..] {
                return Err(format!("asset {}: trade log is not an extension of the log before the step", a));
            }
            for t in &post[a].trades[from..] {
                match t.t.checked_sub(start) {
                    Some(p) if (p as usize) < n => trades_at[p as usize][a].push(*t),
                    _ => return Err(format!("asset {}: trade stamped {} outside [start, start+n) = [{}, {})", a, t.t, start, start + n as u64)),
                }
            }
        }
        let mut ended_at = vec![Vec::new(); n.max(1)];
        for a in 0..assets {
            for (i, o) in post[a].orders.iter().enumerate() {
                let was_terminal = pre[a].orders.get(i).map(|p| terminal(p.status)).unwrap_or(false);
                if !was_terminal && terminal(o.status) {
                    match o.end.checked_sub(start) {
                        Some(p) if (p as usize) < n => ended_at[p as usize].push((a, i)),
                        _ => return Err(format!("asset {}: order {} ended at {} outside [start, start+n)", a, i, o.end)),
                    }
                }
            }
        }
        for e in ended_at.iter_mut() {
            e.sort();
        }
        Ok(StepObs { start, step_size, n, post, pins, trades_at, ended_at })
    }
}

pub struct Survivor {
    pub models: Vec<Model>,
    pub schedule: Vec<usize>,
}

struct Search<'a> {
    so: &'a StepObs<'a>,
    pending: &'a [Instr],
    levels: usize,
    out: Vec<Survivor>,
    leaves: usize,
    aborted: bool,
    /// leaves whose model state hit a `poisoned` condition (key-collision twin predicts an abort)
    pub poisoned_paths: usize,
    /// indices of the free (cancel / modify) instructions of the batch
    free_idx: Vec<usize>,
}

impl<'a> Search<'a> {
    /// Apply instruction `k` at position `i` to `nm`; false = pruned (the trades / terminations the model stamps with
    /// start+i are not exactly the observed ones, or the defect twin predicts an abort).
    fn apply_checked(&mut self, nm: &mut Vec<Model>, i: usize, k: usize) -> bool {
        let so = self.so;
        let ins = &self.pending[k];
        let a = ins.asset();
        for m in nm.iter_mut() {
            m.set_time(so.start + i as u64);
        }
        let before_trades = nm[a].trades.len();
        let before_status = nm[a].orders[ins.target()].o.status;
        apply_instr(nm, ins);
        if nm[a].poisoned.is_some() {
            self.poisoned_paths += 1;
            return false;
        }
        // prune: trades stamped start+i must be exactly the ones this instruction produces
        for b in 0..nm.len() {
            if b == a {
                if nm[a].trades[before_trades..] != so.trades_at[i][a][..] {
                    return false;
                }
            } else if !so.trades_at[i][b].is_empty() {
                return false;
            }
        }
        // prune: orders that ended at start+i must be exactly the ones this instruction terminated
        let mut ended: Vec<(usize, usize)> = vec![];
        let tid = ins.target();
        if !terminal(before_status) && terminal(nm[a].orders[tid].o.status) {
            ended.push((a, tid));
        }
        for t in &nm[a].trades[before_trades..] {
            if nm[a].orders[t.passive].o.status == FILLED && !ended.contains(&(a, t.passive)) {
                ended.push((a, t.passive));
            }
        }
        ended.sort();
        ended == so.ended_at[i]
    }

    /// Depth-first search over positions. Positions with a single candidate (pinned by an arrival time, or one free
    /// instruction left) are applied in place on the working copy, so the recursion depth and the number of model
    /// clones are bounded by the number of free (unpinned) instructions, not by the batch size.
    fn dfs(&mut self, mut i: usize, mut cur: Vec<Model>, used: &mut Vec<bool>, sched: &mut Vec<usize>) {
        let so = self.so;
        let sched_len0 = sched.len();
        let undo = |used: &mut Vec<bool>, sched: &mut Vec<usize>| {
            while sched.len() > sched_len0 {
                let k = sched.pop().unwrap();
                used[k] = false;
            }
        };
        loop {
            if self.aborted {
                undo(used, sched);
                return;
            }
            if i == so.n {
                self.leaves += 1;
                if self.leaves > LEAF_CAP {
                    self.aborted = true;
                    undo(used, sched);
                    return;
                }
                for m in cur.iter_mut() {
                    m.set_time(so.start + so.step_size);
                }
                let mut ok = true;
                for (a, m) in cur.iter().enumerate() {
                    if m.poisoned.is_some() || m.obs(self.levels, false).diff(&so.post[a]).is_some() {
                        ok = false;
                        break;
                    }
                }
                if ok {
                    self.out.push(Survivor { models: cur, schedule: sched.clone() });
                }
                undo(used, sched);
                return;
            }
            let cands: Vec<usize> = match so.pins[i] {
                Some(k) => {
                    if used[k] {
                        undo(used, sched);
                        return;
                    }
                    vec![k]
                }
                None => {
                    let mut c: Vec<usize> = vec![];
                    for &k in self.free_idx.iter() {
                        if !used[k] && !c.iter().any(|j| self.pending[*j] == self.pending[k]) {
                            c.push(k);
                        }
                    }
                    c
                }
            };
            if cands.is_empty() {
                undo(used, sched);
                return;
            }
            if cands.len() == 1 {
                let k = cands[0];
                if !self.apply_checked(&mut cur, i, k) {
                    undo(used, sched);
                    return;
                }
                used[k] = true;
                sched.push(k);
                i += 1;
                continue;
            }
            for k in cands {
                let mut nm = cur.clone();
                if !self.apply_checked(&mut nm, i, k) {
                    continue;
                }
                used[k] = true;
                sched.push(k);
                self.dfs(i + 1, nm, used, sched);
                sched.pop();
                used[k] = false;
            }
            undo(used, sched);
            return;
        }
    }
}

/// All (model state, schedule) pairs that explain the observed step starting from belief `b`.
pub fn search(b: &[Model], pending: &[Instr], so: &StepObs, levels: usize) -> (Vec<Survivor>, bool, usize) {
    let free_idx: Vec<usize> = (0..pending.len()).filter(|k| !pending[*k].is_new()).collect();
    let mut s = Search { so, pending, levels, out: vec![], leaves: 0, aborted: false, poisoned_paths: 0, free_idx };
    let mut used = vec![false; so.n];
    let mut sched = Vec::with_capacity(so.n);
    s.dfs(0, b.to_vec(), &mut used, &mut sched);
    (s.out, s.aborted, s.poisoned_paths)
}

fn belief_digest(ms: &[Model], with_qtime: bool) -> u64 {
    let mut h = Fnv::new();
    for m in ms {
        h.u64(m.hidden_digest(with_qtime));
    }
    h.0
}

pub struct W3Exec {
    pub cfg: W3Cfg,
    pub prop: String,
    pub env: Box<dyn EnvLike>,
    pub rng: SeamRng,
    pub ids: Vec<Vec<usize>>,
    pub budget: Vec<u64>,
    pub pending: Vec<Instr>,
    pub beliefs: Vec<Vec<Model>>,
    pub coll: Vec<Vec<Model>>,
    pub shadows: Option<Vec<Box<dyn Mkt>>>,
    pub prev: Vec<EnvAssetObs>,
    pub steps: usize,
    pub trading: bool,
    pub op_index: usize,
    pub stats: RunStats,
    pub stop: bool,
    pub sim_time: u64,
    /// submissions since the last complete observation were tracked as expected state only (large batches)
    pub sparse_dirty: bool,
    n_free_cached: usize,
}

impl W3Exec {
    pub fn new(cfg: &W3Cfg) -> Result<W3Exec, String> {
        let env = guard(|| new_env(cfg.market, cfg.assets, cfg.levels, cfg.t0, &cfg.ticks, cfg.step_size, cfg.trading0))?;
        let mk = |tie: Tie| -> Vec<Model> { (0..cfg.assets).map(|a| Model::new(cfg.t0, cfg.ticks[a], cfg.trading0, tie)).collect() };
        let shadows = if has(cfg, w3mon::SHADOW) {
            Some((0..cfg.assets).map(|a| new_book(cfg.levels, cfg.t0, cfg.ticks[a], cfg.trading0)).collect())
        } else {
            None
        };
        let mut ex = W3Exec {
            cfg: cfg.clone(),
            prop: cfg.property.clone(),
            env,
            rng: SeamRng::passthrough(cfg.rng_seed),
            ids: vec![vec![]; cfg.assets],
            budget: vec![0; cfg.assets],
            pending: vec![],
            beliefs: vec![mk(Tie::Fifo)],
            coll: if has(cfg, w3mon::TIE_CLASSIFY) { vec![mk(Tie::KeyCollision)] } else { vec![] },
            shadows,
            prev: vec![],
            steps: 0,
            trading: cfg.trading0,
            op_index: 0,
            stats: RunStats::default(),
            stop: false,
            sim_time: 0,
            sparse_dirty: false,
            n_free_cached: 0,
        };
        ex.prev = ex.observe().map_err(|v| v.actual)?;
        Ok(ex)
    }

    fn viol(&self, class: &str, field: &str, exp: String, act: String) -> Violation {
        Violation::new(&self.prop, class, self.op_index, field, exp, act)
    }

    /// Complete observation of every asset; the environment-level accessors that duplicate book-level ones
    /// must agree with them.
    fn observe(&self) -> Result<Vec<EnvAssetObs>, Violation> {
        let env = &self.env;
        let n = self.cfg.assets;
        let r = guard(|| {
            let mut out = Vec::with_capacity(n);
            let mut bad: Option<(String, String, String)> = None;
            for a in 0..n {
                let o = env.obs(a);
                let eo = env.env_orders(a);
                if eo != o.book.orders {
                    bad = Some((format!("asset{}.env.get_orders", a), format!("{:?}", o.book.orders.len()), format!("{:?}", eo.len())));
                }
                let et = env.env_trades(a);
                if et != o.book.trades {
                    bad = Some((format!("asset{}.env.get_trades", a), format!("{:?}", o.book.trades.len()), format!("{:?}", et.len())));
                }
                if let Some(last) = o.book.orders.last() {
                    if env.status(a, last.id) != last.status {
                        bad = Some((format!("asset{}.env.order_status({})", a, last.id), last.status.to_string(), env.status(a, last.id).to_string()));
                    }
                    if env.order(a, last.id) != *last {
                        bad = Some((format!("asset{}.env.order({})", a, last.id), format!("{:?}", last), format!("{:?}", env.order(a, last.id))));
                    }
                }
                if env.time() != o.book.t {
                    bad = Some((format!("asset{}.time", a), env.time().to_string(), o.book.t.to_string()));
                }
                out.push(o);
            }
            (out, bad)
        });
        match r {
            Err(msg) => Err(self.viol("panic", "observation", "no abort".into(), msg)),
            Ok((_, Some(b))) => Err(self.viol("view-mismatch", &b.0, b.1, b.2).detail("environment-level accessor disagrees with the live book".into())),
            Ok((o, None)) => Ok(o),
        }
    }

    fn n_free(&self) -> usize {
        self.n_free_cached
    }

    /// Large batches: between complete observations only the *expected* state is tracked (a new order appended with
    /// status New, nothing else changed); the next complete observation is compared with it, so anything that became
    /// visible in between is still reported - at the next checkpoint instead of at the very submission.
    fn sparse_now(&self) -> bool {
        !has(&self.cfg, w3mon::GRID) && self.pending.len() >= SPARSE_FROM && self.pending.len() % SPARSE_EVERY != 0
    }

    /// Complete observation after sparse submissions: must equal the tracked expected state.
    fn sync(&mut self) -> Result<(), Violation> {
        if !self.sparse_dirty {
            return Ok(());
        }
        self.sparse_dirty = false;
        let now = self.observe()?;
        if has(&self.cfg, w3mon::INVISIBLE) {
            let exp = std::mem::take(&mut self.prev);
            let r = self.unchanged(&exp, &now, "one of the submissions since the last complete observation");
            self.prev = now;
            r?;
        } else {
            self.prev = now;
        }
        Ok(())
    }

    fn room(&self) -> bool {
        self.pending.len() < MAX_BATCH && (self.cfg.allow_overflow || (self.pending.len() as u64) < self.cfg.step_size)
    }

    fn price_valid(&self, a: usize, p: u32) -> bool {
        p != 0 && p != PMAX && (p % self.cfg.ticks[a] == 0 || self.cfg.allow_offgrid)
    }

    /// Is `op` a valid request in the current state (the property's "valid histories")?
    pub fn valid(&self, op: &EnvOp) -> bool {
        match op {
            EnvOp::New { a, vol, price, .. } => {
                *a < self.cfg.assets && *vol >= 1 && self.room() && self.budget[*a] + *vol as u64 <= PMAX as u64 && price.map(|p| self.price_valid(*a, p)).unwrap_or(true)
            }
            EnvOp::Cancel { a, ord } => *a < self.cfg.assets && *ord < self.ids[*a].len() && self.room() && self.n_free() < MAX_FREE,
            EnvOp::Modify { a, ord, price, vol } => {
                *a < self.cfg.assets
                    && *ord < self.ids[*a].len()
                    && self.room()
                    && self.n_free() < MAX_FREE
                    && *vol != Some(0)
                    && vol.map(|v| self.budget[*a] + v as u64 <= PMAX as u64).unwrap_or(true)
                    && price.map(|p| self.price_valid(*a, p)).unwrap_or(true)
            }
            EnvOp::Step { .. } => {
                let t = self.prev[0].book.t;
                t.checked_add(self.cfg.step_size.max(self.pending.len() as u64)).map(|x| x < (1u64 << 62)).unwrap_or(false)
            }
            EnvOp::Trading { .. } => true,
        }
    }

    fn unchanged(&self, pre: &[EnvAssetObs], post: &[EnvAssetObs], what: &str) -> Result<(), Violation> {
        for a in 0..pre.len() {
            if let Some(d) = pre[a].diff(&post[a]) {
                return Err(self.viol("visible-before-step", &format!("asset{}.{}", a, d.0), d.1, d.2).detail(format!("{} changed the observable state before the next step", what)));
            }
        }
        Ok(())
    }

    fn submit_new(&mut self, a: usize, bid: bool, vol: u32, trader: u32, price: Option<u32>) -> Result<(), Violation> {
        let pre = std::mem::take(&mut self.prev);
        let r = {
            let env = &mut self.env;
            guard(move || env.place(a, bid, vol, trader, price))
        };
        let r = match r {
            Ok(r) => r,
            Err(msg) => return Err(self.viol("panic", "place_order", "no abort".into(), msg)),
        };
        if self.sparse_now() {
            // track the expected state only
            let mut pre = pre;
            if let Ok((ra, id)) = r {
                if ra != a || id != pre[a].book.orders.len() {
                    return Err(self.viol("visible-before-step", &format!("asset{}.new id", a), format!("({}, {})", a, pre[a].book.orders.len()), format!("({}, {})", ra, id)));
                }
                let t = pre[a].book.t;
                let p = price.unwrap_or(if bid { PMAX } else { 0 });
                pre[a].book.orders.push(OOrder { bid, status: NEW, arr: t, end: TMAX, vol, start_vol: vol, price: p, trader, id });
                self.ids[a].push(id);
                self.budget[a] += vol as u64;
                self.pending.push(Instr::New { a, id });
                for set in [&mut self.beliefs, &mut self.coll] {
                    for b in set.iter_mut() {
                        let _ = b[a].create(bid, vol, trader, price);
                    }
                }
                if let Some(sh) = self.shadows.as_mut() {
                    let s = &mut sh[a];
                    let _ = guard(move || s.create(0, bid, vol, trader, price));
                }
            } else if price.map(|p| p % self.cfg.ticks[a] == 0).unwrap_or(true) {
                return Err(self.viol("ongrid-rejected", &format!("asset{}.env.place_order({:?})", a, price), "Ok".into(), "Err".into()));
            }
            self.prev = pre;
            self.sparse_dirty = true;
            self.stats.probe("sparse_submission");
            return self.check_queue_len();
        }
        let post = self.observe()?;
        let on_grid = price.map(|p| p % self.cfg.ticks[a] == 0).unwrap_or(true);
        if !on_grid {
            self.stats.fault("offgrid_create_request");
        }
        if has(&self.cfg, w3mon::GRID) {
            if r.is_ok() != on_grid {
                let class = if r.is_ok() { "offgrid-accepted" } else { "ongrid-rejected" };
                return Err(self.viol(class, &format!("asset{}.env.place_order({:?})", a, price), format!("ok={}", on_grid), format!("ok={}", r.is_ok())));
            }
            if r.is_err() {
                for k in 0..pre.len() {
                    if let Some(d) = pre[k].diff(&post[k]) {
                        return Err(self.viol("rejected-left-trace", &format!("asset{}.{}", k, d.0), d.1, d.2));
                    }
                }
            }
        }
        match r {
            Ok((ra, id)) => {
                let t = pre[a].book.t;
                if has(&self.cfg, w3mon::INVISIBLE) || has(&self.cfg, w3mon::GRID) {
                    if ra != a || id != pre[a].book.orders.len() {
                        let class = if has(&self.cfg, w3mon::GRID) { "rejected-left-trace" } else { "visible-before-step" };
                        return Err(self.viol(class, &format!("asset{}.new id", a), format!("({}, {})", a, pre[a].book.orders.len()), format!("({}, {})", ra, id)));
                    }
                }
                if has(&self.cfg, w3mon::INVISIBLE) {
                    let mut exp = pre.clone();
                    let p = match price {
                        Some(p) => p,
                        None => {
                            if bid {
                                PMAX
                            } else {
                                0
                            }
                        }
                    };
                    exp[a].book.orders.push(OOrder { bid, status: NEW, arr: t, end: TMAX, vol, start_vol: vol, price: p, trader, id });
                    for k in 0..exp.len() {
                        if let Some(d) = exp[k].diff(&post[k]) {
                            return Err(self
                                .viol("visible-before-step", &format!("asset{}.{}", k, d.0), d.1, d.2)
                                .detail("submitting a new order changed more than appending one order with status New".into()));
                        }
                    }
                }
                if ra < self.cfg.assets {
                    self.ids[ra].push(id);
                    self.budget[ra] += vol as u64;
                    self.pending.push(Instr::New { a: ra, id });
                    for set in [&mut self.beliefs, &mut self.coll] {
                        for b in set.iter_mut() {
                            let _ = b[ra].create(bid, vol, trader, price);
                        }
                    }
                    if let Some(sh) = self.shadows.as_mut() {
                        let s = &mut sh[ra];
                        let _ = guard(move || s.create(0, bid, vol, trader, price));
                    }
                }
            }
            Err(_) => {
                if on_grid && !has(&self.cfg, w3mon::GRID) {
                    return Err(self.viol("ongrid-rejected", &format!("asset{}.env.place_order({:?})", a, price), "Ok".into(), "Err".into()));
                }
            }
        }
        self.prev = post;
        self.check_queue_len()
    }

    fn submit_other(&mut self, ins: Instr) -> Result<(), Violation> {
        let pre = std::mem::take(&mut self.prev);
        let r = {
            let env = &mut self.env;
            let ins = ins.clone();
            guard(move || match ins {
                Instr::Cancel { a, id } => env.cancel(a, id),
                Instr::Modify { a, id, p, v } => env.modify(a, id, p, v),
                Instr::New { .. } => {}
            })
        };
        if let Err(msg) = r {
            return Err(self.viol("panic", "submission", "no abort".into(), msg));
        }
        let post = if self.sparse_now() {
            self.sparse_dirty = true;
            self.stats.probe("sparse_submission");
            pre
        } else {
            let post = self.observe()?;
            if has(&self.cfg, w3mon::INVISIBLE) {
                self.unchanged(&pre, &post, &format!("queuing {:?}", ins))?;
            }
            post
        };
        if let Instr::Modify { a, v: Some(v), .. } = &ins {
            self.budget[*a] += *v as u64;
        }
        if let Instr::Modify { a, p: Some(p), .. } = &ins {
            if p % self.cfg.ticks[*a] != 0 {
                self.stats.fault("offgrid_reprice_request");
            }
        }
        self.pending.push(ins);
        self.n_free_cached += 1;
        self.prev = post;
        self.check_queue_len()
    }

    fn check_queue_len(&self) -> Result<(), Violation> {
        if has(&self.cfg, w3mon::INVISIBLE) || has(&self.cfg, w3mon::BELIEF) || has(&self.cfg, w3mon::GRID) {
            let q = guard(|| self.env.n_queued()).unwrap_or(usize::MAX);
            if q != self.pending.len() {
                let class = if has(&self.cfg, w3mon::GRID) { "rejected-left-trace" } else if has(&self.cfg, w3mon::BELIEF) { "step-clause" } else { "visible-before-step" };
                return Err(self
                    .viol(class, "instruction queue length", self.pending.len().to_string(), q.to_string())
                    .detail("the queue must hold exactly the instructions submitted since the previous step (a rejected creation queues nothing)".into()));
            }
        }
        Ok(())
    }

    fn toggle(&mut self, on: bool) -> Result<(), Violation> {
        self.sync()?;
        let pre = std::mem::take(&mut self.prev);
        let r = {
            let env = &mut self.env;
            guard(move || if on { env.enable_trading() } else { env.disable_trading() })
        };
        if let Err(msg) = r {
            return Err(self.viol("panic", "trading switch", "no abort".into(), msg));
        }
        let post = self.observe()?;
        if has(&self.cfg, w3mon::INVISIBLE) || has(&self.cfg, w3mon::HALT) {
            for a in 0..pre.len() {
                if let Some(d) = pre[a].diff(&post[a]) {
                    let class = if has(&self.cfg, w3mon::HALT) { "traded-while-halted" } else { "visible-before-step" };
                    return Err(self.viol(class, &format!("asset{}.{}", a, d.0), d.1, d.2).detail("switching the trading flag changed the observable state by itself".into()));
                }
            }
        }
        self.trading = on;
        self.stats.fault(if on { "trading_resume" } else { "trading_halt" });
        for set in [&mut self.beliefs, &mut self.coll] {
            for b in set.iter_mut() {
                for m in b.iter_mut() {
                    if on {
                        m.enable_trading()
                    } else {
                        m.disable_trading()
                    }
                }
            }
        }
        if let Some(sh) = self.shadows.as_mut() {
            for s in sh.iter_mut() {
                if on {
                    s.enable_trading()
                } else {
                    s.disable_trading()
                }
            }
        }
        self.prev = post;
        Ok(())
    }

    fn step(&mut self, perm: &Option<Vec<usize>>) -> Result<(), Violation> {
        self.sync()?;
        let cfg = self.cfg.clone();
        let n = self.pending.len();
        let pre = std::mem::take(&mut self.prev);
        let start = pre[0].book.t;
        let mut steered: Option<Vec<usize>> = None;
        if let Some(p) = perm {
            let mut seen = vec![false; n];
            let is_perm = p.len() == n && p.iter().all(|x| *x < n && !std::mem::replace(&mut seen[*x], true));
            if is_perm && n >= 2 {
                self.rng.script = steer_shuffle(p).into();
                steered = Some(p.clone());
                self.stats.fault("steered_schedule");
            }
        }
        let draws0 = self.rng.draws;
        let r = {
            let env = &mut self.env;
            let rng = &mut self.rng;
            guard(move || env.step(rng))
        };
        let leftover = self.rng.script.len();
        self.rng.script.clear();
        self.stats.probe_n("rng_draws_in_step", self.rng.draws - draws0);
        if n as u64 > cfg.step_size {
            self.stats.fault("step_overflow_batch_gt_step_size");
        }
        if n as u64 == cfg.step_size {
            self.stats.probe("batch_equals_step_size");
        }
        if n >= 128 {
            self.stats.probe("large_batch_step");
        }
        if self.steps == 1024 {
            self.stats.probe("run_of_1024_plus_steps");
        }
        if n > 4096 {
            self.stats.probe("large_batch_step_over_4096");
        }
        if let Err(msg) = r {
            return Err(self.classify_step_panic(msg, &steered, start));
        }
        let post = self.observe()?;
        self.steps += 1;
        self.sim_time += cfg.step_size;
        self.stats.ops += n as u64;
        let pre_b: Vec<BookObs> = pre.iter().map(|o| o.book.clone()).collect();
        let post_b: Vec<BookObs> = post.iter().map(|o| o.book.clone()).collect();

        // ---- direct clauses of C08 (model-free) ----
        if has(&cfg, w3mon::BELIEF) || has(&cfg, w3mon::INVISIBLE) {
            let q = guard(|| self.env.n_queued()).unwrap_or(usize::MAX);
            if q != 0 {
                let class = if has(&cfg, w3mon::BELIEF) { "step-clause" } else { "visible-before-step" };
                return Err(self.viol(class, "instruction queue length after step", "0".into(), q.to_string()).detail("after a step the instruction queue must be empty".into()));
            }
        }
        if has(&cfg, w3mon::BELIEF) {
            for a in 0..cfg.assets {
                if post_b[a].t != start + cfg.step_size {
                    return Err(self.viol("step-clause", &format!("asset{}.time", a), (start + cfg.step_size).to_string(), post_b[a].t.to_string()).detail("after a step the clock must stand at start + step size".into()));
                }
                let from = pre_b[a].trades.len().min(post_b[a].trades.len());
                let sum: u64 = post_b[a].trades[from..].iter().map(|t| t.vol as u64).sum();
                if post_b[a].trade_vol as u64 != sum {
                    return Err(self
                        .viol("step-clause", &format!("asset{}.trade_vol", a), sum.to_string(), post_b[a].trade_vol.to_string())
                        .detail("the step's traded volume must count exactly this step's trades".into()));
                }
            }
        }

        // ---- model-free: nothing trades while halted (C13) ----
        if has(&cfg, w3mon::HALT) && !self.trading {
            for a in 0..cfg.assets {
                if post_b[a].trades.len() != pre_b[a].trades.len() || post_b[a].trade_vol != 0 {
                    return Err(self.viol("traded-while-halted", &format!("asset{}.trades.len", a), pre_b[a].trades.len().to_string(), post_b[a].trades.len().to_string()));
                }
            }
        }

        // ---- cached level-2 snapshot (C10) ----
        if has(&cfg, w3mon::INVISIBLE) {
            for a in 0..cfg.assets {
                if post[a].cached_l2 != post_b[a].l2 {
                    return Err(self
                        .viol("visible-before-step", &format!("asset{}.level_2_data()", a), format!("{:?}", post_b[a].l2), format!("{:?}", post[a].cached_l2))
                        .detail("the level-2 snapshot handed to agents differs from the live book at the end of the step".into()));
                }
            }
        }

        // ---- the environment's book survives a JSON round trip after any step (oversized ones included) ----
        if has(&cfg, w3mon::BOOKSNAP) {
            for a in 0..cfg.assets {
                let env = &self.env;
                let lv = cfg.levels;
                let r = guard(|| {
                    let js = env.book_json(a);
                    book_from_json(lv, &js).map(|b| b.obs(0, false))
                });
                match r {
                    Err(msg) => return Err(self.viol("panic", "book snapshot save/load", "no abort".into(), msg)),
                    Ok(Err(e)) => {
                        return Err(self
                            .viol("snapshot-diverged", &format!("asset{}.load", a), "Ok".into(), format!("Err({})", e))
                            .detail("the JSON snapshot of the environment's live book does not load back".into()))
                    }
                    Ok(Ok(o)) => {
                        if let Some(d) = post_b[a].diff(&o) {
                            return Err(self
                                .viol("snapshot-diverged", &format!("asset{}.{}", a, d.0), d.1, d.2)
                                .detail("the environment's live book differs from its own JSON snapshot reloaded".into()));
                        }
                    }
                }
            }
            self.stats.fault("env_book_json_round_trip");
        }

        // ---- recorded histories (C11) ----
        if has(&cfg, w3mon::RECORDS) {
            self.check_records(&pre, &post, start, n)?;
        }
        // ---- C08: "the step's traded volume counts only that step's trades" - also as the environment reports it per
        // step and per asset (one entry per step, equal to the volume of the trades this step appended) ----
        if cfg.property == "C08" && !has(&cfg, w3mon::RECORDS) {
            let k = self.steps;
            for a in 0..cfg.assets {
                let h = &post[a].hist;
                let from = pre[a].book.trades.len().min(post[a].book.trades.len());
                let by_index: u64 = post[a].book.trades[from..].iter().map(|t| t.vol as u64).sum();
                if h.trade_vols.len() != k {
                    return Err(self.viol("step-volume", &format!("asset{}.trade_vols.len", a), k.to_string(), h.trade_vols.len().to_string()).detail("the environment reports one traded volume per step and asset".into()));
                }
                if h.trade_vols[k - 1] as u64 != by_index {
                    return Err(self.viol("step-volume", &format!("asset{}.trade_vols[{}]", a, k - 1), by_index.to_string(), h.trade_vols[k - 1].to_string()).detail("the step's traded volume as the environment reports it differs from the volume of the trades this step appended".into()));
                }
            }
        }

        // ---- schedule inference / belief set (C08, C05 overflow, C13, C14) ----
        if has(&cfg, w3mon::BELIEF) {
            let pending = std::mem::take(&mut self.pending);
            let res = self.infer(&pending, &pre_b, &post_b, start, &steered);
            self.pending = pending;
            res?;
        }
        let _ = leftover;
        self.pending.clear();
        self.n_free_cached = 0;
        for o in &post_b {
            self.stats.state_digests.push(o.state_digest());
        }
        // volume budget: what bounds the per-side resting volume and the per-step traded volume (< 2^32, the valid
        // histories) is the volume still outstanding, not the volume ever submitted: completed orders release theirs, so
        // that the traded volume accumulated over the steps of a run may well exceed 2^32
        for a in 0..cfg.assets {
            let out: u64 = post_b[a].orders.iter().filter(|o| o.status == NEW || o.status == ACTIVE).map(|o| o.vol as u64).sum();
            if out < self.budget[a] {
                self.budget[a] = out;
            }
            let tv: u64 = post_b[a].trades.iter().map(|t| t.vol as u64).sum();
            if tv > PMAX as u64 {
                self.stats.probe("run_traded_volume_over_2_32");
            }
        }
        self.prev = post;
        Ok(())
    }

    fn classify_step_panic(&self, msg: String, steered: &Option<Vec<usize>>, start: u64) -> Violation {
        if has(&self.cfg, w3mon::TIE_CLASSIFY) {
            if let Some(p) = steered {
                // does the exact twin of the pinned side maps abort on the steered schedule?
                for b in &self.coll {
                    let mut ms = b.clone();
                    for m in ms.iter_mut() {
                        m.reset_trade_vol();
                    }
                    for (i, k) in p.iter().enumerate() {
                        for m in ms.iter_mut() {
                            m.set_time(start + i as u64);
                        }
                        apply_instr(&mut ms, &self.pending[*k]);
                    }
                    if ms.iter().any(|m| m.poisoned.is_some()) && ms.iter().any(|m| m.collisions > 0) {
                        return self
                            .viol("tie-key-collision", "panic", "no abort".into(), msg)
                            .site("side.rs::insert_order")
                            .detail("abort during step predicted by the key-collision twin".into());
                    }
                }
            }
        }
        self.viol("panic", "step", "no abort".into(), msg)
    }

    fn infer(&mut self, pending: &[Instr], pre_b: &[BookObs], post_b: &[BookObs], start: u64, steered: &Option<Vec<usize>>) -> Result<(), Violation> {
        let cfg = self.cfg.clone();
        let n = pending.len();
        let so = match StepObs::build(start, cfg.step_size, pending, pre_b, post_b) {
            Ok(s) => Some(s),
            Err(why) => {
                // under the known tie defect an orphaned order can make the observation itself inconsistent
                if !has(&cfg, w3mon::TIE_CLASSIFY) {
                    return Err(self.viol("no-schedule-explains", "step", "a permutation of the submitted batch processed once each at times start+i".into(), why));
                }
                None
            }
        };
        let mut survivors: Vec<Survivor> = vec![];
        let mut aborted = false;
        if let Some(so) = so.as_ref() {
            for b in &self.beliefs {
                let mut b = b.clone();
                for m in b.iter_mut() {
                    m.reset_trade_vol();
                }
                let (mut s, ab, _) = search(&b, pending, so, cfg.levels);
                aborted |= ab;
                survivors.append(&mut s);
            }
        }
        // key-collision twin (classification only)
        let mut coll_surv: Vec<Survivor> = vec![];
        if has(&cfg, w3mon::TIE_CLASSIFY) {
            if let Some(so) = so.as_ref() {
                for b in &self.coll {
                    let mut b = b.clone();
                    for m in b.iter_mut() {
                        m.reset_trade_vol();
                    }
                    let (mut s, _, _) = search(&b, pending, so, cfg.levels);
                    coll_surv.append(&mut s);
                }
            }
        }
        if std::env::var("VERIF_DEBUG").is_ok() {
            eprintln!(
                "op {} step n={} start={} so={} fifo beliefs {} -> {} survivors; coll beliefs {} -> {} survivors (collisions {:?})",
                self.op_index,
                n,
                start,
                so.is_some(),
                self.beliefs.len(),
                survivors.len(),
                self.coll.len(),
                coll_surv.len(),
                coll_surv.iter().map(|s| s.models.iter().map(|m| m.collisions).sum::<u64>()).collect::<Vec<_>>()
            );
        }
        if aborted {
            self.stats.inconclusive = true;
            self.stop = true;
            return Ok(());
        }
        if survivors.is_empty() {
            if has(&cfg, w3mon::TIE_CLASSIFY) && coll_surv.iter().any(|s| s.models.iter().any(|m| m.collisions > 0)) {
                return Err(self
                    .viol("tie-key-collision", "step", "FIFO among equal timestamps".into(), "observed market equals the key-collision twin".into())
                    .site("side.rs::insert_order")
                    .detail("no schedule explains the step under FIFO tie semantics, but one does under the exact twin of the pinned side.rs maps (orders sharing (side, price, timestamp) collide)".into()));
            }
            let pinned = so.as_ref().map(|s| s.pins.iter().filter(|p| p.is_some()).count()).unwrap_or(0);
            return Err(self
                .viol(
                    "no-schedule-explains",
                    "step",
                    "some permutation of the submitted batch, each instruction processed exactly once at time start+i, reproduces the observed market".into(),
                    "none does".into(),
                )
                .detail(format!("batch of {} instructions ({} pinned by arrival times), {} belief state(s) before the step, start={}", n, pinned, self.beliefs.len(), start)));
        }
        // steering reach
        if let Some(p) = steered {
            self.stats.probe("steered_steps");
            if survivors.iter().any(|s| s.schedule == *p) {
                self.stats.probe("steering_hit");
            }
        }
        {
            let mut h = Fnv::new();
            h.u64(n as u64);
            for k in &survivors[0].schedule {
                h.u64(*k as u64);
            }
            self.stats.set("schedules", h.0);
            if n >= 2 && survivors[0].schedule.iter().enumerate().any(|(i, k)| i != *k) {
                self.stats.probe("non_identity_schedule");
            }
        }
        // de-duplicate by canonical hidden state (queue times matter only when the clock can be pulled back)
        // (queue times never matter for the FIFO specification: priority within a level is the order of queuing)
        let with_qtime = false;
        let first_sched = survivors[0].schedule.clone();
        let mut seen = std::collections::BTreeSet::new();
        let mut nb: Vec<Vec<Model>> = vec![];
        for s in survivors {
            if seen.insert(belief_digest(&s.models, with_qtime)) {
                nb.push(s.models);
            }
        }
        self.stats.probe_n("belief_states_after_step", nb.len() as u64);
        if nb.len() > 1 {
            self.stats.probe("ambiguous_step");
        }
        self.stats.max("belief_set_max", nb.len() as u64);
        if nb.len() > BELIEF_CAP {
            self.stats.inconclusive = true;
            self.stop = true;
            return Ok(());
        }
        self.beliefs = nb;
        if has(&cfg, w3mon::TIE_CLASSIFY) {
            let mut seen = std::collections::BTreeSet::new();
            let mut nc: Vec<Vec<Model>> = vec![];
            for s in coll_surv {
                if seen.insert(belief_digest(&s.models, true)) && nc.len() < BELIEF_CAP {
                    nc.push(s.models);
                }
            }
            self.coll = nc;
        }
        // interacting batch? (the schedule matters): more than one instruction on one order, or trades
        if post_b.iter().zip(pre_b.iter()).any(|(p, q)| p.trades.len() > q.trades.len()) {
            self.stats.probe("step_with_trades");
        }
        // ---- real plain order books replayed with the inferred schedule ----
        if has(&cfg, w3mon::SHADOW) {
            if self.beliefs.len() == 1 {
                if let Some(sh) = self.shadows.as_mut() {
                    let step_size = cfg.step_size;
                    let r = guard(|| {
                        for s in sh.iter_mut() {
                            s.reset_trade_vols();
                        }
                        for (i, k) in first_sched.iter().enumerate() {
                            for s in sh.iter_mut() {
                                s.set_time(start + i as u64);
                            }
                            match &pending[*k] {
                                Instr::New { a, id } => sh[*a].event(0, EvKind::New, *id, None, None),
                                Instr::Cancel { a, id } => sh[*a].event(0, EvKind::Cancel, *id, None, None),
                                Instr::Modify { a, id, p, v } => sh[*a].event(0, EvKind::Modify, *id, *p, *v),
                            }
                        }
                        for s in sh.iter_mut() {
                            s.set_time(start + step_size);
                        }
                        sh.iter().map(|s| s.obs(0, false)).collect::<Vec<BookObs>>()
                    });
                    match r {
                        Err(msg) => return Err(self.viol("panic", "plain order book replay", "no abort".into(), msg)),
                        Ok(obs) => {
                            self.stats.probe("plain_book_replays");
                            for a in 0..cfg.assets {
                                if let Some(d) = obs[a].diff(&post_b[a]) {
                                    let class = if self.prop == "C14" { "asset-interference" } else { "plain-book-mismatch" };
                                    return Err(self
                                        .viol(class, &format!("asset{}.{}", a, d.0), d.1, d.2)
                                        .detail("a stand-alone order book replaying the inferred schedule at the inferred times differs from the environment's book".into()));
                                }
                            }
                        }
                    }
                }
            } else if self.shadows.is_some() {
                self.shadows = None;
                self.stats.probe("shadow_dropped_ambiguous");
            }
        }
        Ok(())
    }

    fn check_records(&mut self, pre: &[EnvAssetObs], post: &[EnvAssetObs], start: u64, n: usize) -> Result<(), Violation> {
        let k = self.steps;
        let levels = self.cfg.levels;
        for a in 0..self.cfg.assets {
            let h = &post[a].hist;
            let b = &post[a].book;
            let ph = &pre[a].hist;
            let f = |s: &str| format!("asset{}.{}", a, s);
            macro_rules! series {
                ($name:expr, $new:expr, $old:expr, $live:expr) => {{
                    let new: &Vec<u32> = $new;
                    let old: &Vec<u32> = $old;
                    if new.len() != k {
                        return Err(self.viol("record-mismatch", &f(&format!("{}.len", $name)), k.to_string(), new.len().to_string()));
                    }
                    if new[..k - 1] != old[..] {
                        return Err(self.viol("record-mismatch", &f(&format!("{}[..{}]", $name, k - 1)), format!("{:?}", old), format!("{:?}", &new[..k - 1])).detail("earlier entries of a recorded series changed".into()));
                    }
                    let live: u32 = $live;
                    if new[k - 1] != live {
                        return Err(self
                            .viol("record-mismatch", &f(&format!("{}[{}]", $name, k - 1)), live.to_string(), new[k - 1].to_string())
                            .detail("entry of a recorded series differs from the live book at the end of the step".into()));
                    }
                }};
            }
            series!("prices.bid", &h.prices.0, &ph.prices.0, b.bid_ask.0);
            series!("prices.ask", &h.prices.1, &ph.prices.1, b.bid_ask.1);
            series!("volumes.bid", &h.volumes.0, &ph.volumes.0, b.bid_vol);
            series!("volumes.ask", &h.volumes.1, &ph.volumes.1, b.ask_vol);
            series!("touch_volumes.bid", &h.touch_volumes.0, &ph.touch_volumes.0, b.bid_best_vol);
            series!("touch_volumes.ask", &h.touch_volumes.1, &ph.touch_volumes.1, b.ask_best_vol);
            series!("touch_order_counts.bid", &h.touch_counts.0, &ph.touch_counts.0, b.bid_best.1);
            series!("touch_order_counts.ask", &h.touch_counts.1, &ph.touch_counts.1, b.ask_best.1);
            if h.vol_levels.0.len() != levels || h.vol_levels.1.len() != levels || h.cnt_levels.0.len() != levels || h.cnt_levels.1.len() != levels {
                return Err(self.viol("record-mismatch", &f("levels"), levels.to_string(), h.vol_levels.0.len().to_string()));
            }
            for i in 0..levels {
                series!(format!("volumes_at_levels.bid[{}]", i), &h.vol_levels.0[i], &ph.vol_levels.0[i], b.bid_levels[i].0);
                series!(format!("volumes_at_levels.ask[{}]", i), &h.vol_levels.1[i], &ph.vol_levels.1[i], b.ask_levels[i].0);
                series!(format!("orders_at_levels.bid[{}]", i), &h.cnt_levels.0[i], &ph.cnt_levels.0[i], b.bid_levels[i].1);
                series!(format!("orders_at_levels.ask[{}]", i), &h.cnt_levels.1[i], &ph.cnt_levels.1[i], b.ask_levels[i].1);
            }
            // per-step traded volume from the trade log
            let from = pre[a].book.trades.len().min(b.trades.len());
            let by_index: u64 = b.trades[from..].iter().map(|t| t.vol as u64).sum();
            // (time-stamp windows of different steps are disjoint only while no step was oversized)
            if (n as u64) <= self.cfg.step_size && !self.stats.faults.contains_key("step_overflow_batch_gt_step_size") {
                let by_time: u64 = b.trades.iter().filter(|t| t.t >= start && t.t < start + self.cfg.step_size).map(|t| t.vol as u64).sum();
                if by_time != by_index {
                    return Err(self
                        .viol("record-mismatch", &f("trades"), format!("trades appended in step {} are stamped within it (sum {})", k - 1, by_index), by_time.to_string()));
                }
            }
            if h.trade_vols.len() != k {
                return Err(self.viol("record-mismatch", &f("trade_vols.len"), k.to_string(), h.trade_vols.len().to_string()));
            }
            if h.trade_vols[..k - 1] != ph.trade_vols[..] {
                return Err(self.viol("record-mismatch", &f("trade_vols[..]"), format!("{:?}", ph.trade_vols), format!("{:?}", &h.trade_vols[..k - 1])));
            }
            if h.trade_vols[k - 1] as u64 != by_index {
                return Err(self
                    .viol("record-mismatch", &f(&format!("trade_vols[{}]", k - 1)), by_index.to_string(), h.trade_vols[k - 1].to_string())
                    .detail("per-step traded volume differs from the total volume of the trades time-stamped within the step".into()));
            }
            // asymmetry reach
            if b.bid_vol != b.ask_vol && b.bid_best != b.ask_best {
                self.stats.probe("asymmetric_book_recorded");
            }
            if levels >= 3 && (b.bid_levels[levels - 1].0 > 0 || b.ask_levels[levels - 1].0 > 0) {
                self.stats.probe("deepest_level_populated");
            }
            if levels >= 2 && (b.bid_levels[1].0 > 0 || b.ask_levels[1].0 > 0) {
                self.stats.probe("level_beyond_first_populated");
            }
            if by_index > 0 {
                self.stats.probe("step_with_traded_volume_recorded");
            }
        }
        Ok(())
    }

    pub fn run(&mut self, ops: &[EnvOp]) -> Option<Violation> {
        for (i, op) in ops.iter().enumerate() {
            if self.stop {
                break;
            }
            self.op_index = i;
            if !self.valid(op) {
                self.stats.skipped_ops += 1;
                continue;
            }
            let r = match op {
                EnvOp::New { a, bid, vol, trader, price } => self.submit_new(*a, *bid, *vol, *trader, *price),
                EnvOp::Cancel { a, ord } => {
                    let id = self.ids[*a][*ord];
                    self.submit_other(Instr::Cancel { a: *a, id })
                }
                EnvOp::Modify { a, ord, price, vol } => {
                    let id = self.ids[*a][*ord];
                    self.submit_other(Instr::Modify { a: *a, id, p: *price, v: *vol })
                }
                EnvOp::Step { perm } => self.step(perm),
                EnvOp::Trading { on } => self.toggle(*on),
            };
            if let Err(v) = r {
                return Some(v);
            }
        }
        None
    }
}

/// C11 marathon: `cfg.marathon` (> 2^20) steps on one environment, almost all of them idle, a handful carrying a small
/// trade. The per-step audit of the ordinary runs re-reads every series after every step (quadratic), so here the audit is
/// sparse: the harness remembers what the live book showed at the end of a few sampled steps (early ones, around 2^19 and
/// 2^20, the last ones) and the volume those steps traded; at the end every series must have exactly k entries and hold the
/// remembered values at the sampled positions.
fn marathon(scn: &W3Scn) -> RunOutcome {
    let cfg = &scn.cfg;
    let mut stats = RunStats::default();
    let k_total = cfg.marathon as usize;
    let viol = |class: &str, step: usize, field: &str, exp: String, act: String| Violation::new(&cfg.property, class, step, field, exp, act);
    let res = (|| -> Result<(), Violation> {
        let mut env = guard(|| new_env(cfg.market, cfg.assets, cfg.levels, cfg.t0, &cfg.ticks, cfg.step_size, true)).map_err(|m| viol("panic", 0, "construction", "no abort".into(), m))?;
        let mut rng = SeamRng::passthrough(cfg.rng_seed);
        let half = 1usize << 19;
        let mut sampled: Vec<usize> = vec![1, 2, 3, 7, 1000, half - 1, half, half + 1, half + 2, 2 * half - 1, 2 * half, 2 * half + 1];
        for d in 0..4 {
            if k_total > d {
                sampled.push(k_total - d);
            }
        }
        sampled.sort();
        sampled.dedup();
        let active: Vec<usize> = vec![1, 2, 6, half - 2, half + 1, 2 * half - 3, 2 * half + 1, k_total - 1];
        // (step, asset) -> (live book at the end of the step, volume the step traded)
        let mut remembered: Vec<(usize, usize, BookObs, u64)> = vec![];
        for k in 1..=k_total {
            let is_sampled = sampled.binary_search(&k).is_ok();
            let before: Vec<usize> = if is_sampled { (0..cfg.assets).map(|a| env.env_trades(a).len()).collect() } else { vec![] };
            if active.contains(&k) {
                for a in 0..cfg.assets {
                    let t = cfg.ticks[a];
                    let c = 1000 + (k % 50) as u32;
                    // a resting bid and ask a few ticks apart, and a small sell that trades with the bid: asymmetric by construction
                    let _ = env.place(a, true, 5 + (k % 4) as u32, 1, Some((c - 2) * t));
                    let _ = env.place(a, false, 11 + (k % 3) as u32, 2, Some((c + 60) * t));
                    let _ = env.place(a, false, 2, 3, None);
                }
            }
            {
                let e = &mut env;
                let r = &mut rng;
                guard(move || e.step(r)).map_err(|m| viol("panic", k, "step", "no abort".into(), m))?;
            }
            if is_sampled {
                for a in 0..cfg.assets {
                    let tr = env.env_trades(a);
                    let vol: u64 = tr[before[a].min(tr.len())..].iter().map(|t| t.vol as u64).sum();
                    remembered.push((k, a, env.book_obs(a), vol));
                }
            }
            stats.ops += 1;
        }
        for a in 0..cfg.assets {
            let o = guard(|| env.obs(a)).map_err(|m| viol("panic", k_total, "observation", "no abort".into(), m))?;
            let h = &o.hist;
            let f = |s: &str| format!("asset{}.{}", a, s);
            let mut series: Vec<(String, &Vec<u32>)> = vec![
                ("prices.bid".into(), &h.prices.0), ("prices.ask".into(), &h.prices.1), ("volumes.bid".into(), &h.volumes.0), ("volumes.ask".into(), &h.volumes.1),
                ("touch_volumes.bid".into(), &h.touch_volumes.0), ("touch_volumes.ask".into(), &h.touch_volumes.1),
                ("touch_order_counts.bid".into(), &h.touch_counts.0), ("touch_order_counts.ask".into(), &h.touch_counts.1), ("trade_vols".into(), &h.trade_vols),
            ];
            for i in 0..h.vol_levels.0.len() {
                series.push((format!("volumes_at_levels.bid[{}]", i), &h.vol_levels.0[i]));
                series.push((format!("volumes_at_levels.ask[{}]", i), &h.vol_levels.1[i]));
                series.push((format!("orders_at_levels.bid[{}]", i), &h.cnt_levels.0[i]));
                series.push((format!("orders_at_levels.ask[{}]", i), &h.cnt_levels.1[i]));
            }
            for (name, s) in &series {
                if s.len() != k_total {
                    return Err(viol("record-mismatch", k_total, &f(&format!("{}.len", name)), k_total.to_string(), s.len().to_string()).detail(format!("after {} steps every recorded series has exactly {} entries", k_total, k_total)));
                }
            }
            for (k, ra, b, vol) in &remembered {
                if *ra != a {
                    continue;
                }
                let j = k - 1;
                let exp: Vec<(&str, u32, u32)> = vec![
                    ("prices.bid", b.bid_ask.0, h.prices.0[j]), ("prices.ask", b.bid_ask.1, h.prices.1[j]), ("volumes.bid", b.bid_vol, h.volumes.0[j]), ("volumes.ask", b.ask_vol, h.volumes.1[j]),
                    ("touch_volumes.bid", b.bid_best_vol, h.touch_volumes.0[j]), ("touch_volumes.ask", b.ask_best_vol, h.touch_volumes.1[j]),
                    ("touch_order_counts.bid", b.bid_best.1, h.touch_counts.0[j]), ("touch_order_counts.ask", b.ask_best.1, h.touch_counts.1[j]),
                ];
                for (name, live, rec) in exp {
                    if live != rec {
                        return Err(viol("record-mismatch", *k, &f(&format!("{}[{}]", name, j)), live.to_string(), rec.to_string()).detail("entry of a recorded series differs from what the live book showed at the end of that step".into()));
                    }
                }
                for i in 0..h.vol_levels.0.len().min(b.bid_levels.len()) {
                    if h.vol_levels.0[i][j] != b.bid_levels[i].0 || h.vol_levels.1[i][j] != b.ask_levels[i].0 || h.cnt_levels.0[i][j] != b.bid_levels[i].1 || h.cnt_levels.1[i][j] != b.ask_levels[i].1 {
                        return Err(viol("record-mismatch", *k, &f(&format!("levels[{}][{}]", i, j)), format!("{:?} / {:?}", b.bid_levels[i], b.ask_levels[i]), format!("({}, {}) / ({}, {})", h.vol_levels.0[i][j], h.cnt_levels.0[i][j], h.vol_levels.1[i][j], h.cnt_levels.1[i][j])));
                    }
                }
                if h.trade_vols[j] as u64 != *vol {
                    return Err(viol("record-mismatch", *k, &f(&format!("trade_vols[{}]", j)), vol.to_string(), h.trade_vols[j].to_string()));
                }
            }
        }
        stats.probe("marathon_of_2_20_steps");
        stats.probe("asymmetric_book_recorded");
        Ok(())
    })();
    stats.sim_time = stats.ops * cfg.step_size;
    stats.end_digest = cfg.marathon ^ cfg.rng_seed;
    RunOutcome { violation: res.err(), stats }
}

pub fn execute(scn: &W3Scn) -> RunOutcome {
    if scn.cfg.marathon > 0 {
        return marathon(scn);
    }
    let mut ex = match W3Exec::new(&scn.cfg) {
        Ok(e) => e,
        Err(msg) => {
            return RunOutcome {
                violation: Some(Violation::new(&scn.cfg.property, "panic", 0, "construction", "no abort".into(), msg)),
                stats: RunStats::default(),
            }
        }
    };
    // construction clause of C10: the cached snapshot equals the live book
    let mut v = None;
    if has(&scn.cfg, w3mon::INVISIBLE) {
        for a in 0..scn.cfg.assets {
            if ex.prev[a].cached_l2 != ex.prev[a].book.l2 {
                v = Some(Violation::new(&scn.cfg.property, "visible-before-step", 0, &format!("asset{}.level_2_data()", a), format!("{:?}", ex.prev[a].book.l2), format!("{:?}", ex.prev[a].cached_l2)));
            }
        }
    }
    if v.is_none() {
        v = ex.run(&scn.ops);
    }
    if v.is_none() && !ex.stop {
        // submissions at the end of a scenario that were only tracked as expected state
        v = ex.sync().err();
    }
    let mut stats = std::mem::take(&mut ex.stats);
    stats.sim_time = ex.sim_time;
    let mut h = Fnv::new();
    for o in &ex.prev {
        h.u64(o.book.digest());
        h.u64(o.hist.digest());
    }
    stats.end_digest = h.0;
    stats.probe_n("steps", ex.steps as u64);
    let coll: u64 = ex.beliefs.first().map(|b| b.iter().map(|m| m.collisions).sum()).unwrap_or(0);
    stats.probe_n("tie_collisions", coll);
    RunOutcome { violation: v, stats }
}
