//! Scenario = explicit, replayable description of one simulated run (all worlds).
use crate::core::*;
use crate::w1ops::W1Scn;
use serde::{Deserialize, Serialize};

#[derive(Clone, Debug, Serialize, Deserialize, PartialEq)]
pub enum Scenario {
    W1(W1Scn),
}

impl Scenario {
    pub fn execute(&self, run_dir: &str) -> RunOutcome {
        match self {
            Scenario::W1(s) => crate::w1exec::execute(s, run_dir),
        }
    }
    /// length of the list ddmin works on
    pub fn len(&self) -> usize {
        match self {
            Scenario::W1(s) => s.ops.len(),
        }
    }
    /// scenario with list elements `keep[i] == false` removed
    pub fn filtered(&self, keep: &[bool]) -> Scenario {
        match self {
            Scenario::W1(s) => Scenario::W1(crate::shrink::w1_filtered(s, keep)),
        }
    }
    /// single-step simplifications (each candidate differs from self in one place)
    pub fn simplifications(&self) -> Vec<Scenario> {
        match self {
            Scenario::W1(s) => crate::shrink::w1_simplifications(s).into_iter().map(Scenario::W1).collect(),
        }
    }
    pub fn world(&self) -> &'static str {
        match self {
            Scenario::W1(s) => {
                if s.cfg.market {
                    "W2-market"
                } else {
                    "W1-book"
                }
            }
        }
    }
}

#[derive(Clone, Debug, Serialize, Deserialize)]
pub struct ReplayFile {
    pub property: String,
    pub verif_seed: u64,
    pub run_index: u64,
    pub run_seed: u64,
    pub scenario: Scenario,
    pub violation: Violation,
    pub original_len: usize,
}
