//! Scenario = explicit, replayable description of one simulated run (all worlds).
use crate::core::*;
use crate::w1ops::W1Scn;
use crate::w3ops::W3Scn;
use crate::w4::W4Scn;
use crate::w4probe::ShapeScn;
use serde::{Deserialize, Serialize};

#[derive(Clone, Debug, Serialize, Deserialize, PartialEq)]
pub enum Scenario {
    W1(W1Scn),
    W3(W3Scn),
    W4(W4Scn),
    Shape(ShapeScn),
    Stat(crate::w3stat::StatScn),
    W5(crate::w5::W5Scn),
    /// re-run of a whole statistical batch (C15 replay)
    StatBatch { property: String, verif_seed: u64, runs: u64 },
}

impl Scenario {
    /// Execute the scenario. An abort anywhere outside the guarded calls into bourse (e.g. a monitor indexing with
    /// an id the real code made up) is reported as a violation of the scenario's property, never as a crash.
    pub fn execute(&self, run_dir: &str) -> RunOutcome {
        // every execution starts from an empty scratch directory: nothing a previous run (or a previous candidate of the
        // minimiser) left on disk may influence this one - otherwise a replay in a fresh process could not reproduce it
        if !run_dir.is_empty() && !matches!(self, Scenario::StatBatch { .. }) {
            if let Ok(rd) = std::fs::read_dir(run_dir) {
                for e in rd.flatten() {
                    let p = e.path();
                    if p.is_dir() {
                        let _ = std::fs::remove_dir_all(&p);
                    } else {
                        let _ = std::fs::remove_file(&p);
                    }
                }
            }
        }
        match guard(|| self.execute_inner(run_dir)) {
            Ok(o) => o,
            Err(msg) => RunOutcome {
                violation: Some(Violation::new(self.property(), "oracle-abort", 0, "harness", "observations an oracle can index".into(), msg).detail("an oracle aborted while evaluating observations of the real code (ids or lengths out of range)".into())),
                stats: RunStats::default(),
            },
        }
    }
    pub fn property(&self) -> &str {
        match self {
            Scenario::W1(s) => &s.cfg.property,
            Scenario::W3(s) => &s.cfg.property,
            Scenario::W4(s) => &s.cfg.property,
            Scenario::Shape(s) => &s.property,
            Scenario::Stat(s) => &s.property,
            Scenario::W5(s) => &s.property,
            Scenario::StatBatch { property, .. } => property,
        }
    }
    fn execute_inner(&self, run_dir: &str) -> RunOutcome {
        match self {
            Scenario::W1(s) => crate::w1exec::execute(s, run_dir),
            Scenario::W3(s) => crate::w3exec::execute(s),
            Scenario::Shape(s) => crate::w4probe::execute(s),
            Scenario::Stat(s) => crate::w3stat::execute(s),
            Scenario::W5(s) => crate::w5::execute(s, run_dir),
            Scenario::StatBatch { property, verif_seed, runs } => crate::runner::stat_batch(property, *verif_seed, *runs),
            Scenario::W4(s) => match s.cfg.property.as_str() {
                "C16" => crate::w4agents::execute_c16(s),
                "C17" => crate::w4agents::execute_c17(s),
                _ => crate::w4::execute_c09(s, run_dir),
            },
        }
    }
    /// length of the list ddmin works on
    pub fn len(&self) -> usize {
        match self {
            Scenario::W1(s) => s.ops.len(),
            Scenario::W3(s) => s.ops.len(),
            Scenario::W4(s) => s.agents.len() + s.initial.len() + s.inject.len(),
            Scenario::Shape(_) => 0,
            Scenario::Stat(_) | Scenario::StatBatch { .. } => 0,
            Scenario::W5(s) => s.calls.len(),
        }
    }
    /// scenario with list elements `keep[i] == false` removed
    pub fn filtered(&self, keep: &[bool]) -> Scenario {
        match self {
            Scenario::W1(s) => Scenario::W1(crate::shrink::w1_filtered(s, keep)),
            Scenario::W3(s) => Scenario::W3(crate::shrink::w3_filtered(s, keep)),
            Scenario::W4(s) => Scenario::W4(crate::shrink::w4_filtered(s, keep)),
            Scenario::Shape(s) => Scenario::Shape(s.clone()),
            Scenario::Stat(_) | Scenario::StatBatch { .. } => self.clone(),
            Scenario::W5(s) => {
                let mut n = s.clone();
                n.calls = s.calls.iter().zip(keep.iter()).filter(|(_, k)| **k).map(|(c, _)| c.clone()).collect();
                Scenario::W5(n)
            }
        }
    }
    /// single-step simplifications (each candidate differs from self in one place)
    pub fn simplifications(&self) -> Vec<Scenario> {
        match self {
            Scenario::W1(s) => crate::shrink::w1_simplifications(s).into_iter().map(Scenario::W1).collect(),
            Scenario::W3(s) => crate::shrink::w3_simplifications(s).into_iter().map(Scenario::W3).collect(),
            Scenario::W4(s) => crate::shrink::w4_simplifications(s).into_iter().map(Scenario::W4).collect(),
            Scenario::Stat(s) => {
                let mut out = vec![];
                for k in [1usize, s.steps / 2] {
                    if k >= 1 && k < s.steps {
                        let mut n = s.clone();
                        n.steps = k;
                        out.push(Scenario::Stat(n));
                    }
                }
                out
            }
            Scenario::StatBatch { .. } => vec![],
            Scenario::W5(s) => {
                if s.second_hashseed {
                    let mut n = s.clone();
                    n.second_hashseed = false;
                    vec![Scenario::W5(n)]
                } else {
                    vec![]
                }
            }
            Scenario::Shape(s) => {
                let mut out = vec![];
                if s.calls > 1 {
                    let mut n = s.clone();
                    n.calls = 1;
                    out.push(Scenario::Shape(n));
                }
                if s.inst != 0 {
                    let mut n = s.clone();
                    n.inst = 0;
                    out.push(Scenario::Shape(n));
                }
                out
            }
        }
    }
    pub fn world(&self) -> &'static str {
        match self {
            Scenario::W1(s) => {
                if s.cfg.market {
                    "W2-market"
                } else {
                    "W1-book"
                }
            }
            Scenario::Shape(_) => "W4-probe-agent-sets",
            Scenario::Stat(_) | Scenario::StatBatch { .. } => "W3-observable-batches",
            Scenario::W5(_) => "W5-python",
            Scenario::W4(s) => {
                if s.cfg.market {
                    "W4-agents-market-env"
                } else {
                    "W4-agents-env"
                }
            }
            Scenario::W3(s) => {
                if s.cfg.market {
                    "W3-market-env"
                } else {
                    "W3-env"
                }
            }
        }
    }
}

#[derive(Clone, Debug, Serialize, Deserialize)]
pub struct ReplayFile {
    pub property: String,
    pub verif_seed: u64,
    pub run_index: u64,
    pub run_seed: u64,
    pub scenario: Scenario,
    pub violation: Violation,
    pub original_len: usize,
}
