//! Scenario = explicit, replayable description of one simulated run (all worlds).
use crate::core::*;
use crate::w1ops::W1Scn;
use crate::w3ops::W3Scn;
use serde::{Deserialize, Serialize};

#[derive(Clone, Debug, Serialize, Deserialize, PartialEq)]
pub enum Scenario {
    W1(W1Scn),
    W3(W3Scn),
}

impl Scenario {
    /// Execute the scenario. An abort anywhere outside the guarded calls into bourse (e.g. a monitor indexing with
    /// an id the real code made up) is reported as a violation of the scenario's property, never as a crash.
    pub fn execute(&self, run_dir: &str) -> RunOutcome {
        match guard(|| self.execute_inner(run_dir)) {
            Ok(o) => o,
            Err(msg) => RunOutcome {
                violation: Some(Violation::new(self.property(), "oracle-abort", 0, "harness", "observations an oracle can index".into(), msg).detail("an oracle aborted while evaluating observations of the real code (ids or lengths out of range)".into())),
                stats: RunStats::default(),
            },
        }
    }
    pub fn property(&self) -> &str {
        match self {
            Scenario::W1(s) => &s.cfg.property,
            Scenario::W3(s) => &s.cfg.property,
        }
    }
    fn execute_inner(&self, run_dir: &str) -> RunOutcome {
        match self {
            Scenario::W1(s) => crate::w1exec::execute(s, run_dir),
            Scenario::W3(s) => crate::w3exec::execute(s),
        }
    }
    /// length of the list ddmin works on
    pub fn len(&self) -> usize {
        match self {
            Scenario::W1(s) => s.ops.len(),
            Scenario::W3(s) => s.ops.len(),
        }
    }
    /// scenario with list elements `keep[i] == false` removed
    pub fn filtered(&self, keep: &[bool]) -> Scenario {
        match self {
            Scenario::W1(s) => Scenario::W1(crate::shrink::w1_filtered(s, keep)),
            Scenario::W3(s) => Scenario::W3(crate::shrink::w3_filtered(s, keep)),
        }
    }
    /// single-step simplifications (each candidate differs from self in one place)
    pub fn simplifications(&self) -> Vec<Scenario> {
        match self {
            Scenario::W1(s) => crate::shrink::w1_simplifications(s).into_iter().map(Scenario::W1).collect(),
            Scenario::W3(s) => crate::shrink::w3_simplifications(s).into_iter().map(Scenario::W3).collect(),
        }
    }
    pub fn world(&self) -> &'static str {
        match self {
            Scenario::W1(s) => {
                if s.cfg.market {
                    "W2-market"
                } else {
                    "W1-book"
                }
            }
            Scenario::W3(s) => {
                if s.cfg.market {
                    "W3-market-env"
                } else {
                    "W3-env"
                }
            }
        }
    }
}

#[derive(Clone, Debug, Serialize, Deserialize)]
pub struct ReplayFile {
    pub property: String,
    pub verif_seed: u64,
    pub run_index: u64,
    pub run_seed: u64,
    pub scenario: Scenario,
    pub violation: Violation,
    pub original_len: usize,
}
