//! Model-free monitors (DESIGN §3.3): recomputation, ledger audit, lifecycle, no-op, modify invariants,
//! grid, halt. None of them consults the reference engine.
use crate::core::Violation;
use crate::obs::*;
use crate::w1exec::Prim;
use crate::w1ops::W1Cfg;

pub struct Ctx<'a> {
    pub prop: &'a str,
    pub op_index: usize,
    pub cfg: &'a W1Cfg,
    pub prim: &'a Prim,
    pub pre: &'a [BookObs],
    pub post: &'a [BookObs],
    pub pre_trading: bool,
    pub trading: bool,
    pub ever_disabled: bool,
    pub create_res: &'a Option<Result<(usize, usize), String>>,
    pub is_mkt: &'a [Vec<bool>],
    pub vol_modified: &'a [Vec<bool>],
}

impl<'a> Ctx<'a> {
    fn v(&self, class: &str, field: String, exp: String, act: String) -> Violation {
        Violation::new(self.prop, class, self.op_index, &field, exp, act)
    }
    fn target(&self) -> Option<usize> {
        match self.prim {
            Prim::Create { a, .. } | Prim::Place { a, .. } | Prim::Cancel { a, .. } | Prim::Modify { a, .. } => Some(*a),
            _ => None,
        }
    }
}

/// Recompute every published view of one book from its order list alone.
pub fn recompute_one(o: &BookObs, tick: u32, prop: &str, op_index: usize, a: usize, ever_disabled: bool, check_mid: bool) -> Result<(), Violation> {
    let v = |field: &str, exp: String, act: String| Violation::new(prop, "view-mismatch", op_index, &format!("asset{}.{}", a, field), exp, act);
    let act: Vec<&OOrder> = o.orders.iter().filter(|x| x.status == ACTIVE).collect();
    let bids: Vec<&&OOrder> = act.iter().filter(|x| x.bid).collect();
    let asks: Vec<&&OOrder> = act.iter().filter(|x| !x.bid).collect();
    let bid = bids.iter().map(|x| x.price).max().unwrap_or(0);
    let ask = asks.iter().map(|x| x.price).min().unwrap_or(PMAX);
    let bid_vol: u64 = bids.iter().map(|x| x.vol as u64).sum();
    let ask_vol: u64 = asks.iter().map(|x| x.vol as u64).sum();
    let at = |side: &Vec<&&OOrder>, p: i64| -> Lv {
        // (outside the price domain nothing rests; the ends themselves can hold an order: a buy at 0, a sell at 2^32-1)
        if p < 0 || p > PMAX as i64 {
            return (0, 0);
        }
        let mut r = (0u32, 0u32);
        for x in side.iter() {
            if x.price as i64 == p {
                r.0 += x.vol;
                r.1 += 1;
            }
        }
        r
    };
    let bt = if bids.is_empty() { (0, 0) } else { at(&bids, bid as i64) };
    let atc = if asks.is_empty() { (0, 0) } else { at(&asks, ask as i64) };
    let n = o.bid_levels.len();
    let bl: Vec<Lv> = (0..n).map(|i| if bids.is_empty() { (0, 0) } else { at(&bids, bid as i64 - (i as i64) * tick as i64) }).collect();
    let al: Vec<Lv> = (0..n).map(|i| if asks.is_empty() { (0, 0) } else { at(&asks, ask as i64 + (i as i64) * tick as i64) }).collect();
    macro_rules! chk {
        ($name:expr, $exp:expr, $act:expr) => {
            if $exp != $act {
                return Err(v($name, format!("{:?}", $exp), format!("{:?}", $act)));
            }
        };
    }
    chk!("bid_ask", (bid, ask), o.bid_ask);
    chk!("bid_vol", bid_vol, o.bid_vol as u64);
    chk!("ask_vol", ask_vol, o.ask_vol as u64);
    chk!("bid_best_vol", bt.0, o.bid_best_vol);
    chk!("ask_best_vol", atc.0, o.ask_best_vol);
    chk!("bid_best_vol_and_orders", bt, o.bid_best);
    chk!("ask_best_vol_and_orders", atc, o.ask_best);
    chk!("bid_levels", bl, o.bid_levels);
    chk!("ask_levels", al, o.ask_levels);
    let l1 = L1 {
        bid_price: bid,
        ask_price: ask,
        bid_vol: bid_vol as u32,
        ask_vol: ask_vol as u32,
        bid_touch_vol: bt.0,
        ask_touch_vol: atc.0,
        bid_touch_orders: bt.1,
        ask_touch_orders: atc.1,
    };
    chk!("level_1_data", l1, o.l1);
    let l2 = L2 { bid_price: bid, ask_price: ask, bid_vol: bid_vol as u32, ask_vol: ask_vol as u32, bid_levels: bl.clone(), ask_levels: al.clone() };
    chk!("level_2_data", l2, o.l2);
    // per-level data accounts for all resting volume within its range
    let lo = bid as i64 - (n as i64 - 1) * tick as i64;
    let in_range_b: u64 = bids.iter().filter(|x| (x.price as i64) >= lo).map(|x| x.vol as u64).sum();
    chk!("sum(bid_levels)", in_range_b, o.bid_levels.iter().map(|l| l.0 as u64).sum::<u64>());
    let hi = ask as i64 + (n as i64 - 1) * tick as i64;
    let in_range_a: u64 = asks.iter().filter(|x| (x.price as i64) <= hi).map(|x| x.vol as u64).sum();
    chk!("sum(ask_levels)", in_range_a, o.ask_levels.iter().map(|l| l.0 as u64).sum::<u64>());
    if check_mid {
        if let Some(mid) = o.mid {
            let exp = (bid as f64 + ask as f64) / 2.0;
            if mid.to_bits() != exp.to_bits() {
                return Err(v("mid_price", format!("{:?}", exp), format!("{:?}", mid)));
            }
        }
    }
    if !ever_disabled && !bids.is_empty() && !asks.is_empty() && bid >= ask {
        return Err(Violation::new(prop, "crossed-book", op_index, &format!("asset{}.bid_ask", a), "bid < ask".into(), format!("({}, {})", bid, ask)));
    }
    Ok(())
}

pub fn recompute(c: &Ctx) -> Result<(), Violation> {
    for (a, o) in c.post.iter().enumerate() {
        recompute_one(o, c.cfg.ticks[a], c.prop, c.op_index, a, c.ever_disabled, true)?;
    }
    Ok(())
}

/// Trade-ledger audit (C03): per-operation reconciliation of both counterparties against the log.
pub fn ledger(c: &Ctx, since_reset: &mut [u64]) -> Result<(), Violation> {
    if let Prim::ResetTradeVol = c.prim {
        for s in since_reset.iter_mut() {
            *s = 0;
        }
    }
    for a in 0..c.post.len() {
        let pre = &c.pre[a];
        let post = &c.post[a];
        let f = |s: &str| format!("asset{}.{}", a, s);
        // records already in the log never change
        if post.trades.len() < pre.trades.len() {
            return Err(c.v("log-mutated", f("trades.len"), format!(">= {}", pre.trades.len()), post.trades.len().to_string()));
        }
        for i in 0..pre.trades.len() {
            if pre.trades[i] != post.trades[i] {
                return Err(c.v("log-mutated", f(&format!("trades[{}]", i)), format!("{:?}", pre.trades[i]), format!("{:?}", post.trades[i])));
            }
        }
        let new = &post.trades[pre.trades.len()..];
        if Some(a) != c.target() && !new.is_empty() {
            return Err(c.v("ledger-mismatch", f("trades"), "no new trades (operation addressed elsewhere)".into(), format!("{:?}", new)));
        }
        let mut fills: std::collections::BTreeMap<usize, u64> = Default::default();
        for (k, t) in new.iter().enumerate() {
            let idx = pre.trades.len() + k;
            let tf = |s: &str| f(&format!("trades[{}].{}", idx, s));
            if t.t != post.t {
                return Err(c.v("ledger-mismatch", tf("t"), post.t.to_string(), t.t.to_string()));
            }
            if t.vol == 0 {
                return Err(c.v("ledger-mismatch", tf("vol"), "> 0".into(), "0".into()));
            }
            if t.active >= post.orders.len() || t.passive >= post.orders.len() || t.active == t.passive {
                return Err(c.v("ledger-mismatch", tf("ids"), "two existing distinct orders".into(), format!("({}, {})", t.active, t.passive)));
            }
            let ag = &post.orders[t.active];
            let pa = &post.orders[t.passive];
            if ag.bid == pa.bid {
                return Err(c.v("ledger-mismatch", tf("sides"), "opposite sides".into(), format!("both bid={}", ag.bid)));
            }
            if t.bid != pa.bid {
                return Err(c.v("ledger-mismatch", tf("side"), format!("passive side bid={}", pa.bid), format!("bid={}", t.bid)));
            }
            // the passive order rested before this operation; its price cannot have changed during it
            let pprice = pre.orders.get(t.passive).map(|o| o.price).unwrap_or(pa.price);
            if t.price != pprice || pa.price != pprice {
                return Err(c.v("ledger-mismatch", tf("price"), pprice.to_string(), t.price.to_string()));
            }
            if pre.orders.get(t.passive).map(|o| o.status) != Some(ACTIVE) {
                return Err(c.v("ledger-mismatch", tf("passive"), "an order that was resting before the operation".into(), format!("{:?}", pre.orders.get(t.passive))));
            }
            let admits = if ag.bid { ag.price >= t.price } else { ag.price <= t.price };
            if !admits {
                return Err(c.v("ledger-mismatch", tf("price"), format!("within aggressor limit {}", ag.price), t.price.to_string()));
            }
            *fills.entry(t.active).or_insert(0) += t.vol as u64;
            *fills.entry(t.passive).or_insert(0) += t.vol as u64;
            since_reset[a] += t.vol as u64;
        }
        // per-order reconciliation
        for (i, o) in post.orders.iter().enumerate() {
            let fl = fills.get(&i).copied().unwrap_or(0);
            let before: Option<u64> = pre.orders.get(i).map(|x| x.vol as u64);
            let base: Vec<u64> = match (before, c.prim) {
                (None, _) => vec![o.start_vol as u64],
                (Some(b), Prim::Modify { a: ma, id, vol: Some(v), .. }) if *ma == a && *id == i => vec![b, *v as u64],
                (Some(b), _) => vec![b],
            };
            if !base.iter().any(|b| *b >= fl && b - fl == o.vol as u64) {
                return Err(c.v(
                    "ledger-mismatch",
                    f(&format!("orders[{}].vol", i)),
                    format!("{:?} minus logged fills {}", base, fl),
                    o.vol.to_string(),
                ));
            }
            // cumulative: never volume-modified => start_vol - sum(all logged fills) == vol
            if !c.vol_modified[a].get(i).copied().unwrap_or(false) && !matches!(c.prim, Prim::Modify { .. }) && fl > 0 {
                let tot: u64 = post.trades.iter().filter(|t| t.active == i || t.passive == i).map(|t| t.vol as u64).sum();
                if o.start_vol as u64 != tot + o.vol as u64 {
                    return Err(c.v("ledger-mismatch", f(&format!("orders[{}]", i)), format!("start_vol {} = fills {} + vol", o.start_vol, tot), o.vol.to_string()));
                }
            }
        }
        if post.trade_vol as u64 != since_reset[a] {
            return Err(c.v("ledger-mismatch", f("trade_vol"), since_reset[a].to_string(), post.trade_vol.to_string()));
        }
    }
    Ok(())
}

/// One-way lifecycle (C04).
pub fn lifecycle(c: &Ctx) -> Result<(), Violation> {
    for a in 0..c.post.len() {
        let pre = &c.pre[a];
        let post = &c.post[a];
        let f = |s: String| format!("asset{}.{}", a, s);
        if post.orders.len() < pre.orders.len() {
            return Err(c.v("illegal-transition", f("orders.len".into()), format!(">= {}", pre.orders.len()), post.orders.len().to_string()));
        }
        let grew = post.orders.len() - pre.orders.len();
        let expect_grow = match (c.prim, c.create_res) {
            (Prim::Create { a: ca, .. }, Some(Ok(_))) if *ca == a => 1,
            _ => 0,
        };
        if grew != expect_grow {
            return Err(c.v("illegal-transition", f("orders.len".into()), (pre.orders.len() + expect_grow).to_string(), post.orders.len().to_string()));
        }
        if let (Prim::Create { a: ca, .. }, Some(Ok((_, id)))) = (c.prim, c.create_res) {
            if *ca == a && *id != pre.orders.len() {
                return Err(c.v("illegal-transition", f("new id".into()), pre.orders.len().to_string(), id.to_string()));
            }
        }
        for (i, o) in post.orders.iter().enumerate() {
            let of = |s: &str| f(format!("orders[{}].{}", i, s));
            if o.id != i {
                return Err(c.v("illegal-transition", of("id"), i.to_string(), o.id.to_string()));
            }
            let is_mkt = c.is_mkt[a].get(i).copied().unwrap_or(false);
            let term = |s: u8| s == FILLED || s == CANCELLED || s == REJECTED;
            let (ps, was): (u8, Option<&OOrder>) = match pre.orders.get(i) {
                Some(p) => (p.status, Some(p)),
                None => (NEW, None), // created by this very operation: it started as New
            };
            if let Some(p) = was {
                if p.bid != o.bid || p.trader != o.trader || p.start_vol != o.start_vol {
                    return Err(c.v("illegal-transition", of("identity"), format!("{:?}", p), format!("{:?}", o)));
                }
                if term(p.status) && p != o {
                    return Err(c.v("illegal-transition", of("terminal"), format!("{:?}", p), format!("{:?}", o)));
                }
            }
            if ps != o.status {
                let ok = match (ps, o.status, is_mkt) {
                    (NEW, ACTIVE, false) | (NEW, FILLED, false) => true,
                    (ACTIVE, FILLED, false) | (ACTIVE, CANCELLED, false) => true,
                    (NEW, FILLED, true) | (NEW, CANCELLED, true) => true,
                    (NEW, REJECTED, true) => !c.pre_trading,
                    _ => false,
                };
                if !ok {
                    return Err(c.v("illegal-transition", of("status"), format!("legal successor of {} (market={})", ps, is_mkt), o.status.to_string()));
                }
                if ps == NEW && o.arr != post.t {
                    return Err(c.v("illegal-transition", of("arr_time"), post.t.to_string(), o.arr.to_string()));
                }
                if term(o.status) && o.end != post.t {
                    return Err(c.v("illegal-transition", of("end_time"), post.t.to_string(), o.end.to_string()));
                }
            } else if let Some(p) = was {
                if p.arr != o.arr && ps != NEW {
                    return Err(c.v("illegal-transition", of("arr_time"), p.arr.to_string(), o.arr.to_string()));
                }
            }
            if !term(o.status) && o.end != TMAX {
                return Err(c.v("illegal-transition", of("end_time"), "unset until terminal".into(), o.end.to_string()));
            }
            // (an order that ends at the last representable instant ends at a time equal to the "no end yet" value: that is
            // the time it happened, not a missing stamp)
            if term(o.status) && o.end == TMAX && post.t != TMAX {
                return Err(c.v("illegal-transition", of("end_time"), "set at termination".into(), "unset".into()));
            }
            // (modify volumes are >= 1: a remaining volume of 0 can only come from executions, and an order whose whole
            // volume executed is Filled - "cancelled" is for an unfilled remainder)
            if o.status == CANCELLED && o.vol == 0 {
                return Err(c.v("illegal-transition", of("status"), "Filled (the whole volume executed)".into(), "Cancelled with remaining volume 0".into()));
            }
            if o.status == FILLED && o.vol != 0 {
                return Err(c.v("illegal-transition", of("vol"), "0 when Filled".into(), o.vol.to_string()));
            }
            if o.status == ACTIVE && o.vol == 0 {
                return Err(c.v("illegal-transition", of("vol"), "> 0 while Active".into(), "0".into()));
            }
        }
    }
    Ok(())
}

/// Redundant requests leave every other observable unchanged (C04).
pub fn noop(c: &Ctx) -> Result<(), Violation> {
    let redundant = match c.prim {
        Prim::Place { a, id, .. } => c.pre[*a].orders[*id].status != NEW,
        Prim::Cancel { a, id, .. } => c.pre[*a].orders[*id].status != ACTIVE,
        Prim::Modify { a, id, price, vol, .. } => c.pre[*a].orders[*id].status != ACTIVE || (price.is_none() && vol.is_none()),
        Prim::Tick(_) => true,
        _ => false,
    };
    if !redundant {
        return Ok(());
    }
    for a in 0..c.post.len() {
        let d = if let Prim::Tick(_) = c.prim { c.pre[a].diff_except_time(&c.post[a]) } else { c.pre[a].diff(&c.post[a]) };
        if let Some(d) = d {
            return Err(c.v("noop-changed-state", format!("asset{}.{}", a, d.0), d.1, d.2).detail(format!("redundant request {:?} changed the book", c.prim)));
        }
    }
    if let Prim::Tick(t) = c.prim {
        for o in c.post {
            if o.t != *t {
                return Err(c.v("noop-changed-state", "time".into(), t.to_string(), o.t.to_string()));
            }
        }
    }
    Ok(())
}

/// Model-free part of C06.
pub fn modify_inv(c: &Ctx) -> Result<(), Violation> {
    if let Prim::Modify { a, id, price, vol, .. } = c.prim {
        let pre = &c.pre[*a];
        let post = &c.post[*a];
        let p = &pre.orders[*id];
        let o = &post.orders[*id];
        let f = |s: &str| format!("asset{}.orders[{}].{}", a, id, s);
        if p.id != o.id || p.bid != o.bid || p.trader != o.trader || p.arr != o.arr || p.start_vol != o.start_vol {
            return Err(c.v("model-mismatch", f("identity"), format!("{:?}", p), format!("{:?}", o)).detail("a modification changed id/side/trader/arrival time/starting volume".into()));
        }
        if p.status == ACTIVE {
            if let (None, Some(v)) = (price, vol) {
                if *v < p.vol {
                    // pure reduction: nothing but this order's volume and the published volumes change
                    let mut e = pre.clone();
                    e.orders[*id].vol = *v;
                    let (mut x, mut y) = (e.clone(), post.clone());
                    for z in [&mut x, &mut y] {
                        z.bid_vol = 0;
                        z.ask_vol = 0;
                        z.bid_best_vol = 0;
                        z.ask_best_vol = 0;
                        z.bid_best.0 = 0;
                        z.ask_best.0 = 0;
                        for l in z.bid_levels.iter_mut().chain(z.ask_levels.iter_mut()).chain(z.l2.bid_levels.iter_mut()).chain(z.l2.ask_levels.iter_mut()) {
                            l.0 = 0;
                        }
                        z.l1.bid_vol = 0;
                        z.l1.ask_vol = 0;
                        z.l1.bid_touch_vol = 0;
                        z.l1.ask_touch_vol = 0;
                        z.l2.bid_vol = 0;
                        z.l2.ask_vol = 0;
                    }
                    if let Some(d) = x.diff(&y) {
                        return Err(c.v("model-mismatch", format!("asset{}.{}", a, d.0), d.1, d.2).detail("a pure volume reduction changed more than the order's volume and the published volumes".into()));
                    }
                }
            }
            // omitted fields keep their values
            if price.is_none() && o.price != p.price {
                return Err(c.v("model-mismatch", f("price"), p.price.to_string(), o.price.to_string()));
            }
        }
    }
    Ok(())
}

/// Grid and rejected-creation clauses of C12.
pub fn grid(c: &Ctx) -> Result<(), Violation> {
    if let Prim::Create { a, price, .. } = c.prim {
        let tick = c.cfg.ticks[*a];
        let should_ok = match price {
            None => true,
            Some(p) => p % tick == 0,
        };
        let ok = matches!(c.create_res, Some(Ok(_)));
        if ok != should_ok {
            let class = if ok { "offgrid-accepted" } else { "ongrid-rejected" };
            return Err(c.v(class, format!("asset{}.create({:?})", a, price), format!("ok={}", should_ok), format!("ok={}", ok)));
        }
        if !ok {
            for k in 0..c.post.len() {
                if let Some(d) = c.pre[k].diff(&c.post[k]) {
                    return Err(c.v("rejected-left-trace", format!("asset{}.{}", k, d.0), d.1, d.2));
                }
            }
        } else if let Some(Ok((_, id))) = c.create_res {
            if *id != c.pre[*a].orders.len() {
                return Err(c.v("rejected-left-trace", format!("asset{}.new id", a), c.pre[*a].orders.len().to_string(), id.to_string()));
            }
        }
    }
    for (a, o) in c.post.iter().enumerate() {
        let tick = c.cfg.ticks[a];
        for (i, x) in o.orders.iter().enumerate() {
            let is_mkt = c.is_mkt[a].get(i).copied().unwrap_or(false) || (i >= c.is_mkt[a].len() && matches!(c.prim, Prim::Create { price: None, .. }));
            if !is_mkt && x.price % tick != 0 {
                if let Prim::Modify { a: ma, id, price: Some(np), .. } = c.prim {
                    if *ma == a && *id == i && np % tick != 0 && x.price == *np {
                        return Err(c
                            .v("offgrid-reprice", format!("asset{}.orders[{}].price", a, i), format!("multiple of {}", tick), x.price.to_string())
                            .site("orderbook.rs::modify_order")
                            .detail("modify_order accepted a new price that is not a multiple of the tick size".into()));
                    }
                }
                return Err(c.v("offgrid-accepted", format!("asset{}.orders[{}].price", a, i), format!("multiple of {}", tick), x.price.to_string()));
            }
        }
    }
    Ok(())
}

/// Halted-trading clauses of C13 (model-free part).
pub fn halt(c: &Ctx) -> Result<(), Violation> {
    if matches!(c.prim, Prim::Trading(_) | Prim::TradingAsset { .. }) {
        for a in 0..c.post.len() {
            if let Some(d) = c.pre[a].diff(&c.post[a]) {
                return Err(c.v("traded-while-halted", format!("asset{}.{}", a, d.0), d.1, d.2).detail("switching the trading flag changed the book by itself".into()));
            }
        }
        return Ok(());
    }
    if !c.pre_trading {
        for a in 0..c.post.len() {
            if c.post[a].trades.len() != c.pre[a].trades.len() {
                return Err(c.v("traded-while-halted", format!("asset{}.trades.len", a), c.pre[a].trades.len().to_string(), c.post[a].trades.len().to_string()));
            }
            if c.post[a].trade_vol != c.pre[a].trade_vol && !matches!(c.prim, Prim::ResetTradeVol) {
                return Err(c.v("traded-while-halted", format!("asset{}.trade_vol", a), c.pre[a].trade_vol.to_string(), c.post[a].trade_vol.to_string()));
            }
        }
        // market order placed while halted: rejected, book otherwise untouched
        let placed_mkt: Option<(usize, usize)> = match c.prim {
            Prim::Create { a, price: None, place: true, .. } => c.create_res.as_ref().and_then(|r| r.as_ref().ok()).map(|(_, id)| (*a, *id)),
            Prim::Place { a, id, .. } if c.is_mkt[*a].get(*id).copied().unwrap_or(false) && c.pre[*a].orders[*id].status == NEW => Some((*a, *id)),
            _ => None,
        };
        if let Some((a, id)) = placed_mkt {
            let o = &c.post[a].orders[id];
            if o.status != REJECTED {
                return Err(c.v("traded-while-halted", format!("asset{}.orders[{}].status", a, id), "4 (Rejected)".into(), o.status.to_string()));
            }
            let mut e = c.pre[a].clone();
            if id < e.orders.len() {
                e.orders[id] = *o;
            } else {
                e.orders.push(*o);
            }
            if let Some(d) = e.diff(&c.post[a]) {
                return Err(c.v("traded-while-halted", format!("asset{}.{}", a, d.0), d.1, d.2).detail("a rejected market order touched the book".into()));
            }
        }
    }
    Ok(())
}
