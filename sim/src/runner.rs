//! Batch executor: N seeded runs on W workers, merged in run-index order; known-findings classifier;
//! minimisation + replay file on a new violation; evidence writer.
use crate::core::*;
use crate::rng::run_seed;
use crate::scenario::{ReplayFile, Scenario};
use serde_json::{json, Value};
use std::collections::{BTreeMap, HashSet};
use std::sync::atomic::{AtomicBool, AtomicU64, Ordering};
use std::sync::Mutex;
use std::time::{Duration, Instant};

pub const VERIF_DIR: &str = "/verif";

pub struct CheckSpec {
    pub id: &'static str,
    pub generate: fn(prop: &str, seed: u64, tier: Tier, run_index: u64) -> Scenario,
    /// evaluation over the merged count tables of the whole batch (C15)
    pub finalize: Option<fn(tables: &BTreeMap<String, Vec<u64>>, prop: &str) -> (Option<Violation>, Value)>,
    /// environment check before the batch (e.g. the CPython child starts and imports the extension); Err = harness error (exit 2)
    pub preflight: Option<fn() -> Result<String, String>>,
    pub runs_quick: u64,
    pub runs_thorough: u64,
    pub rule: &'static str,
    pub nontrivial: fn(&RunStats) -> bool,
    pub real: &'static [&'static str],
    pub stub: &'static [&'static str],
    pub assumptions: &'static [&'static str],
    pub explanation: &'static str,
    /// probes that are expected to be reachable; any of them at zero is reported in `reach_zero`
    pub expected_probes: &'static [&'static str],
}

#[derive(Default)]
pub struct Acc {
    pub runs: u64,
    pub ops: u64,
    pub skipped: u64,
    pub sim_time: u128,
    pub nontrivial: HashSet<u64>,
    pub states: HashSet<u64>,
    pub states_saturated: bool,
    pub prefixes: HashSet<u64>,
    pub faults: BTreeMap<&'static str, u64>,
    pub probes: BTreeMap<&'static str, u64>,
    pub inconclusive: u64,
    pub violations: Vec<(u64, Violation)>,
    pub sets: BTreeMap<&'static str, HashSet<u64>>,
    pub tables: BTreeMap<String, Vec<u64>>,
    pub maxes: BTreeMap<&'static str, u64>,
    /// per-run event log (run index, end digest, ops, skipped, state digests hash, violation class) when VERIF_EVENT_LOG is set
    pub events: Vec<(u64, u64, u64, u64, u64, String)>,
}

const STATE_CAP: usize = 1_500_000;

impl Acc {
    fn add(&mut self, idx: u64, out: RunOutcome, log: bool) {
        let s = out.stats;
        if log {
            let mut h = crate::obs::Fnv::new();
            for d in &s.state_digests {
                h.u64(*d);
            }
            for (k, v) in &s.probes {
                h.bytes(k.as_bytes());
                h.u64(*v);
            }
            for (k, v) in &s.faults {
                h.bytes(k.as_bytes());
                h.u64(*v);
            }
            self.events.push((idx, s.end_digest, s.ops, s.skipped_ops, h.0, out.violation.as_ref().map(|v| format!("{}@{}#{}", v.class, v.site, v.op_index)).unwrap_or_default()));
        }
        self.runs += 1;
        self.ops += s.ops;
        self.skipped += s.skipped_ops;
        self.sim_time += s.sim_time as u128;
        if s.nontrivial {
            self.nontrivial.insert(s.end_digest);
        }
        if self.states.len() < STATE_CAP {
            self.states.extend(s.state_digests);
        } else {
            self.states_saturated = true;
        }
        self.prefixes.extend(s.prefix_digests);
        for (k, v) in s.faults {
            *self.faults.entry(k).or_insert(0) += v;
        }
        for (k, v) in s.probes {
            *self.probes.entry(k).or_insert(0) += v;
        }
        if s.inconclusive {
            self.inconclusive += 1;
        }
        for (k, v) in s.maxes {
            let e = self.maxes.entry(k).or_insert(0);
            *e = (*e).max(v);
        }
        for (k, v) in s.sets {
            let e = self.sets.entry(k).or_default();
            if e.len() < STATE_CAP {
                e.extend(v);
            }
        }
        for (k, v) in s.tables {
            let e = self.tables.entry(k).or_insert_with(|| vec![0; v.len()]);
            if e.len() < v.len() {
                e.resize(v.len(), 0);
            }
            for (i, x) in v.iter().enumerate() {
                e[i] += x;
            }
        }
        if let Some(v) = out.violation {
            if self.violations.len() < 64 || self.violations.iter().all(|(_, x)| x.signature() != v.signature()) {
                self.violations.push((idx, v));
            }
        }
    }
    fn merge(&mut self, o: Acc) {
        self.runs += o.runs;
        self.ops += o.ops;
        self.skipped += o.skipped;
        self.sim_time += o.sim_time;
        self.nontrivial.extend(o.nontrivial);
        if self.states.len() < 4 * STATE_CAP {
            self.states.extend(o.states);
        }
        self.states_saturated |= o.states_saturated;
        self.prefixes.extend(o.prefixes);
        for (k, v) in o.faults {
            *self.faults.entry(k).or_insert(0) += v;
        }
        for (k, v) in o.probes {
            *self.probes.entry(k).or_insert(0) += v;
        }
        self.inconclusive += o.inconclusive;
        self.violations.extend(o.violations);
        self.events.extend(o.events);
        for (k, v) in o.maxes {
            let e = self.maxes.entry(k).or_insert(0);
            *e = (*e).max(v);
        }
        for (k, v) in o.sets {
            self.sets.entry(k).or_default().extend(v);
        }
        for (k, v) in o.tables {
            let e = self.tables.entry(k).or_insert_with(|| vec![0; v.len()]);
            if e.len() < v.len() {
                e.resize(v.len(), 0);
            }
            for (i, x) in v.iter().enumerate() {
                e[i] += x;
            }
        }
    }
}

pub fn workers() -> usize {
    std::env::var("VERIF_WORKERS").ok().and_then(|s| s.parse().ok()).unwrap_or(16).max(1)
}

pub fn verif_seed() -> u64 {
    std::env::var("VERIF_SEED").ok().and_then(|s| s.parse().ok()).unwrap_or(20260929)
}

pub fn scratch_root() -> String {
    format!("{}/run/{}", VERIF_DIR, std::process::id())
}

#[derive(Clone, Debug)]
pub struct Finding {
    pub id: String,
    pub property: String,
    pub status: String,
    pub signature: String,
    pub what: String,
}

pub fn load_findings() -> Vec<Finding> {
    let p = format!("{}/known_findings.json", VERIF_DIR);
    let s = match std::fs::read_to_string(&p) {
        Ok(s) => s,
        Err(_) => return vec![],
    };
    let v: Value = match serde_json::from_str(&s) {
        Ok(v) => v,
        Err(e) => {
            eprintln!("harness error: cannot parse {}: {}", p, e);
            std::process::exit(2);
        }
    };
    let mut out = vec![];
    if let Some(a) = v.get("findings").and_then(|f| f.as_array()) {
        for f in a {
            let g = |k: &str| f.get(k).and_then(|x| x.as_str()).unwrap_or("").to_string();
            out.push(Finding { id: g("id"), property: g("property"), status: g("status"), signature: g("signature"), what: g("what") });
        }
    }
    out
}

pub struct BatchResult {
    pub acc: Acc,
    pub wall_s: f64,
    pub planned: u64,
    pub samples: Vec<Value>,
}

/// Run `n` seeded runs of `spec` (indices 0..n) and merge deterministically.
pub fn run_batch(spec: &CheckSpec, tier: Tier, seed: u64, n: u64, max_secs: u64) -> BatchResult {
    let start = Instant::now();
    let next = AtomicU64::new(0);
    let stop = AtomicBool::new(false);
    let total = Mutex::new(Acc::default());
    let w = workers();
    let root = scratch_root();
    let chunk: u64 = (n / (w as u64 * 64)).clamp(1, 256);
    let log_events = std::env::var("VERIF_EVENT_LOG").is_ok();
    std::thread::scope(|sc| {
        for k in 0..w {
            let next = &next;
            let stop = &stop;
            let total = &total;
            let root = root.clone();
            sc.spawn(move || {
                install_panic_hook();
                let dir = format!("{}/w{}", root, k);
                let _ = std::fs::create_dir_all(&dir);
                let mut acc = Acc::default();
                loop {
                    if stop.load(Ordering::Relaxed) {
                        break;
                    }
                    let lo = next.fetch_add(chunk, Ordering::SeqCst);
                    if lo >= n {
                        break;
                    }
                    for idx in lo..(lo + chunk).min(n) {
                        let rs = run_seed(seed, spec.id, idx);
                        let scn = (spec.generate)(spec.id, rs, tier, idx);
                        let mut out = scn.execute(&dir);
                        out.stats.nontrivial = (spec.nontrivial)(&out.stats);
                        acc.add(idx, out, log_events);
                    }
                    if start.elapsed() > Duration::from_secs(max_secs) {
                        stop.store(true, Ordering::Relaxed);
                    }
                }
                let _ = std::fs::remove_dir_all(&dir);
                total.lock().unwrap().merge(acc);
            });
        }
    });
    let _ = std::fs::remove_dir_all(&root);
    let mut acc = total.into_inner().unwrap();
    acc.violations.sort_by_key(|(i, _)| *i);
    if let Ok(path) = std::env::var("VERIF_EVENT_LOG") {
        acc.events.sort();
        let mut out = String::new();
        for e in &acc.events {
            out.push_str(&format!("{} {:016x} {} {} {:016x} {}\n", e.0, e.1, e.2, e.3, e.4, e.5));
        }
        let _ = std::fs::write(path, out);
    }
    // samples: the first two scenarios as executed (operation lists cut for size)
    let mut samples = vec![];
    for idx in 0..2u64.min(n) {
        let rs = run_seed(seed, spec.id, idx);
        let scn = (spec.generate)(spec.id, rs, tier, idx);
        let mut v = serde_json::to_value(&scn).unwrap_or(Value::Null);
        truncate_lists(&mut v, 24);
        samples.push(json!({"run_index": idx, "run_seed": rs, "world": scn.world(), "scenario": v}));
    }
    BatchResult { acc, wall_s: start.elapsed().as_secs_f64(), planned: n, samples }
}

fn truncate_lists(v: &mut Value, max: usize) {
    match v {
        Value::Array(a) => {
            if a.len() > max {
                let extra = a.len() - max;
                a.truncate(max);
                a.push(json!(format!("… {} more", extra)));
            }
            for x in a.iter_mut() {
                truncate_lists(x, max);
            }
        }
        Value::Object(o) => {
            for (_, x) in o.iter_mut() {
                truncate_lists(x, max);
            }
        }
        _ => {}
    }
}

pub fn tier_name(t: Tier) -> &'static str {
    match t {
        Tier::Quick => "quick",
        Tier::Thorough => "thorough",
    }
}

/// Full check of one property: batch, classify, minimise, report, write evidence. Returns the exit code.
pub fn run_check(spec: &CheckSpec, tier: Tier) -> i32 {
    install_panic_hook();
    let seed = verif_seed();
    println!("VERIF_SEED={} property={} tier={} workers={}", seed, spec.id, tier_name(tier), workers());
    let n = match tier {
        Tier::Quick => spec.runs_quick,
        Tier::Thorough => spec.runs_thorough,
    };
    let n = std::env::var("VERIF_RUNS").ok().and_then(|s| s.parse().ok()).unwrap_or(n);
    let max_secs = std::env::var("VERIF_MAX_SECS").ok().and_then(|s| s.parse().ok()).unwrap_or(match tier {
        Tier::Quick => 150,
        Tier::Thorough => 1500,
    });
    let mut pre_info = String::new();
    if let Some(pf) = spec.preflight {
        match pf() {
            Ok(s) => pre_info = s,
            Err(e) => {
                println!("harness error: {}", e);
                return 2;
            }
        }
    }
    let res = run_batch(spec, tier, seed, n, max_secs);
    let (mut code, known_hit, mut nviol) = report(spec, tier, seed, &res);
    let mut extra = json!({});
    if !pre_info.is_empty() {
        extra = json!({"interpreter": pre_info});
    }
    if let Some(fin) = spec.finalize {
        let (v, rep) = fin(&res.acc.tables, spec.id);
        extra["batch_report"] = rep;
        if let (Some(v), 0) = (v, code) {
            // the statistical verdict belongs to the whole batch: the replay file re-runs the batch
            let scn = Scenario::StatBatch { property: spec.id.to_string(), verif_seed: seed, runs: res.acc.runs };
            let rf = ReplayFile { property: spec.id.to_string(), verif_seed: seed, run_index: 0, run_seed: 0, scenario: scn, violation: v.clone(), original_len: 0 };
            let rdir = format!("{}/replays", VERIF_DIR);
            let _ = std::fs::create_dir_all(&rdir);
            let path = format!("{}/{}_{}_batch.json", rdir, spec.id, seed);
            std::fs::write(&path, serde_json::to_string_pretty(&rf).unwrap()).expect("write replay");
            println!("violation class={} site={} op_index={} field={} expected={} actual={} {}", v.class, v.site, v.op_index, v.field, v.expected, v.actual, v.detail);
            println!("VIOLATION property={} replay={}", spec.id, path);
            code = 1;
            nviol += 1;
        }
    }
    write_evidence(spec, tier, seed, &res, &known_hit, nviol, extra);
    code
}

/// Classify the violations of a batch. Returns (exit code, known findings hit, number of new violations).
pub fn report(spec: &CheckSpec, tier: Tier, seed: u64, res: &BatchResult) -> (i32, Vec<String>, usize) {
    let findings = load_findings();
    let mut known_hit: Vec<String> = vec![];
    let mut fresh: Vec<&(u64, Violation)> = vec![];
    for iv in &res.acc.violations {
        let sig = iv.1.signature();
        match findings.iter().find(|f| f.status == "open" && f.property == iv.1.property && f.signature == sig) {
            Some(f) => {
                if !known_hit.contains(&f.id) {
                    println!("KNOWN-FINDING: property={} {} [{}] (first seen in run {})", f.property, f.what, f.id, iv.0);
                    known_hit.push(f.id.clone());
                }
            }
            None => fresh.push(iv),
        }
    }
    let nviol = fresh.len();
    if let Some((idx, v)) = fresh.first().map(|x| (x.0, x.1.clone())) {
        // minimise and write the replay file
        let rs = run_seed(seed, spec.id, idx);
        // (the same tier as the batch: generators may depend on it)
        let scn = (spec.generate)(spec.id, rs, tier, idx);
        let dir = format!("{}/shrink", scratch_root());
        let _ = std::fs::create_dir_all(&dir);
        let original_len = scn.len();
        let (min_scn, min_v) = crate::shrink::shrink(&scn, &v, &dir, Duration::from_secs(10));
        let _ = std::fs::remove_dir_all(scratch_root());
        let rf = ReplayFile { property: spec.id.to_string(), verif_seed: seed, run_index: idx, run_seed: rs, scenario: min_scn, violation: min_v.clone(), original_len };
        let rdir = format!("{}/replays", VERIF_DIR);
        let _ = std::fs::create_dir_all(&rdir);
        let path = format!("{}/{}_{}_{}.json", rdir, spec.id, seed, idx);
        std::fs::write(&path, serde_json::to_string_pretty(&rf).unwrap()).expect("write replay");
        println!(
            "violation class={} site={} op_index={} field={} expected={} actual={} {}",
            min_v.class, min_v.site, min_v.op_index, min_v.field, min_v.expected, min_v.actual, min_v.detail
        );
        println!("minimised {} -> {} list elements; seed={} run_index={}", original_len, rf.scenario.len(), seed, idx);
        println!("VIOLATION property={} replay={}", spec.id, path);
        return (1, known_hit, nviol);
    }
    println!(
        "OK property={} runs={} ops={} distinct_nontrivial={} wall_s={:.1}",
        spec.id,
        res.acc.runs,
        res.acc.ops,
        res.acc.nontrivial.len(),
        res.wall_s
    );
    (0, known_hit, nviol)
}

pub fn write_evidence(spec: &CheckSpec, tier: Tier, seed: u64, res: &BatchResult, known_hit: &[String], nviol: usize, extra: Value) {
    // sensitivity runs against deliberately broken trees must not overwrite the evidence of the real tree
    if std::env::var("VERIF_NO_EVIDENCE").is_ok() {
        return;
    }
    let acc = &res.acc;
    let reach_zero: Vec<&str> = spec.expected_probes.iter().copied().filter(|p| acc.probes.get(p).copied().unwrap_or(0) == 0 && acc.faults.get(p).copied().unwrap_or(0) == 0).collect();
    let mut cov = json!({
        "evaluations": acc.runs,
        "distinct_nontrivial": acc.nontrivial.len(),
        "rule": spec.rule,
        "samples": res.samples,
        "exhaustive": false,
        "explanation": spec.explanation,
        "planned_runs": res.planned,
        "runs_per_hour": if res.wall_s > 0.0 { (acc.runs as f64 / res.wall_s * 3600.0) as u64 } else { 0 },
        "seeds": {"verif_seed": seed, "run_indices": [0, acc.runs.saturating_sub(1)], "derivation": "run_seed = mix(mix(VERIF_SEED, fnv(property)), run_index)"},
        "ops_executed": acc.ops,
        "ops_skipped_as_invalid": acc.skipped,
        "simulated_time_covered": acc.sim_time.to_string(),
        "distinct_states": acc.states.len(),
        "distinct_states_saturated": acc.states_saturated,
        "distinct_prefixes_len_le_4": acc.prefixes.len(),
        "faults_fired": acc.faults,
        "probes": acc.probes,
        "reach_zero": reach_zero,
        "inconclusive": format!("{} of {} runs closed as inconclusive (belief set over the cap); never counted as a violation", acc.inconclusive, acc.runs),
        "maxima": acc.maxes,
        "distinct": acc.sets.iter().map(|(k, v)| (k.to_string(), v.len())).collect::<BTreeMap<String, usize>>(),
        "components": {"real": spec.real, "stub": spec.stub},
        "known_findings_hit": known_hit,
        "workers": workers(),
    });
    if let (Some(c), Some(e)) = (cov.as_object_mut(), extra.as_object()) {
        for (k, v) in e {
            c.insert(k.clone(), v.clone());
        }
    }
    let ev = json!({
        "property_id": spec.id,
        "tier": tier_name(tier),
        "seed": seed,
        "level": "exploration",
        "coverage": cov,
        "assumptions": spec.assumptions,
        "wall_s": res.wall_s,
        "violations": nviol,
    });
    // VERIF_EVIDENCE_DIR: archive runs (e.g. thorough soak runs kept beside the per-change quick evidence)
    let dir = std::env::var("VERIF_EVIDENCE_DIR").unwrap_or_else(|_| format!("{}/evidence", VERIF_DIR));
    let _ = std::fs::create_dir_all(&dir);
    let path = format!("{}/{}.json", dir, spec.id);
    std::fs::write(&path, serde_json::to_string_pretty(&ev).unwrap()).expect("write evidence");
}

/// Replay a replay file in this (fresh) process.
pub fn replay(path: &str) -> i32 {
    install_panic_hook();
    let s = match std::fs::read_to_string(path) {
        Ok(s) => s,
        Err(e) => {
            eprintln!("harness error: cannot read {}: {}", path, e);
            return 2;
        }
    };
    let rf: ReplayFile = match serde_json::from_str(&s) {
        Ok(r) => r,
        Err(e) => {
            eprintln!("harness error: cannot parse {}: {}", path, e);
            return 2;
        }
    };
    let dir = format!("{}/replay", scratch_root());
    let _ = std::fs::create_dir_all(&dir);
    let out = rf.scenario.execute(&dir);
    let _ = std::fs::remove_dir_all(scratch_root());
    match out.violation {
        Some(v) if v.class == rf.violation.class && v.site == rf.violation.site && v.op_index == rf.violation.op_index => {
            println!(
                "violation class={} site={} op_index={} field={} expected={} actual={} {}",
                v.class, v.site, v.op_index, v.field, v.expected, v.actual, v.detail
            );
            println!("VIOLATION property={} replay={}", rf.property, path);
            1
        }
        Some(v) => {
            println!("NOT-REPRODUCED: replay produced a different violation: class={} site={} op_index={} (recorded class={} site={} op_index={})", v.class, v.site, v.op_index, rf.violation.class, rf.violation.site, rf.violation.op_index);
            2
        }
        None => {
            println!("NOT-REPRODUCED: replay of {} completed without a violation (the property holds on this history with the current tree)", path);
            0
        }
    }
}

/// Sequential re-run of a whole statistical batch (replay of a C15 statistical violation).
pub fn stat_batch(prop: &str, seed: u64, runs: u64) -> RunOutcome {
    let spec = match crate::checks::find(prop) {
        Some(s) => s,
        None => return RunOutcome { violation: None, stats: RunStats::default() },
    };
    let res = run_batch(&spec, Tier::Quick, seed, runs, 100_000);
    let v = match res.acc.violations.first() {
        Some((_, v)) => Some(v.clone()),
        None => spec.finalize.and_then(|f| f(&res.acc.tables, prop).0),
    };
    RunOutcome { violation: v, stats: RunStats::default() }
}
