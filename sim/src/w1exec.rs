//! W1 / W2 executor: drives the real book / market, the reference model(s), twins and shadows with an
//! explicit operation list and evaluates the enabled monitors after every single operation.
use crate::api::*;
use crate::core::*;
use crate::model::{Model, Tie};
use crate::monitors as m;
use crate::obs::*;
use crate::w1ops::*;

pub const MAX_TWINS: usize = 3;
pub const T_LIMIT: u64 = 1 << 62;

pub struct Exec {
    pub cfg: W1Cfg,
    pub prop: String,
    pub real: Box<dyn Mkt>,
    pub twins: Vec<Box<dyn Mkt>>,
    pub shadows: Vec<Box<dyn Mkt>>,
    pub models: Vec<Model>,
    pub coll: Vec<Model>,
    pub coll_ok: bool,
    pub ids: Vec<Vec<usize>>,
    pub is_mkt: Vec<Vec<bool>>,
    pub vol_modified: Vec<Vec<bool>>,
    pub budget: Vec<u64>,
    pub prev: Vec<BookObs>,
    /// all assets trading (derived from `trading_a`)
    pub trading: bool,
    pub trading_a: Vec<bool>,
    pub ever_disabled: bool,
    pub since_reset: Vec<u64>,
    pub stats: RunStats,
    pub run_dir: String,
    pub stop: bool,
    pub op_index: usize,
    /// generation mode: only the reference engine is driven (scenario generation must not depend on /repo's behaviour)
    pub model_only: bool,
}

/// primitive operations after expansion (what is actually applied)
#[derive(Clone, Debug)]
pub enum Prim {
    Tick(u64),
    Create { a: usize, bid: bool, vol: u32, trader: u32, price: Option<u32>, place: bool },
    Place { a: usize, id: usize, via_event: bool },
    Cancel { a: usize, id: usize, via_event: bool },
    Modify { a: usize, id: usize, price: Option<u32>, vol: Option<u32>, via_event: bool },
    Trading(bool),
    TradingAsset { a: usize, on: bool },
    ResetTradeVol,
}

fn has(cfg: &W1Cfg, f: u32) -> bool {
    cfg.monitors & f != 0
}

pub fn trim_levels(o: &BookObs, n: usize) -> BookObs {
    let mut o = o.clone();
    o.bid_levels.truncate(n);
    o.ask_levels.truncate(n);
    o.l2.bid_levels.truncate(n);
    o.l2.ask_levels.truncate(n);
    o
}

impl Exec {
    pub fn new(cfg: &W1Cfg) -> Exec {
        let a = cfg.assets;
        let real = new_mkt(cfg.market, a, cfg.levels, cfg.t0, &cfg.ticks, cfg.trading0);
        let models: Vec<Model> = (0..a).map(|i| Model::new(cfg.t0, cfg.ticks[i], cfg.trading0, Tie::Fifo)).collect();
        let coll = if has(cfg, mon::TIE_CLASSIFY) {
            (0..a).map(|i| Model::new(cfg.t0, cfg.ticks[i], cfg.trading0, Tie::KeyCollision)).collect()
        } else {
            vec![]
        };
        let shadows = if has(cfg, mon::SHADOW) {
            (0..a).map(|i| new_book(cfg.levels, cfg.t0, cfg.ticks[i], cfg.trading0)).collect()
        } else {
            vec![]
        };
        let with_mid = has(cfg, mon::MID);
        let prev = (0..a).map(|i| real.obs(i, with_mid)).collect();
        Exec {
            cfg: cfg.clone(),
            prop: cfg.property.clone(),
            real,
            twins: vec![],
            shadows,
            models,
            coll,
            coll_ok: true,
            ids: vec![vec![]; a],
            is_mkt: vec![vec![]; a],
            vol_modified: vec![vec![]; a],
            budget: vec![0; a],
            prev,
            trading: cfg.trading0,
            trading_a: vec![cfg.trading0; a],
            ever_disabled: !cfg.trading0,
            since_reset: vec![0; a],
            stats: RunStats::default(),
            run_dir: String::new(),
            stop: false,
            op_index: 0,
            model_only: false,
        }
    }

    fn viol(&self, class: &str, field: &str, exp: String, act: String) -> Violation {
        Violation::new(&self.prop, class, self.op_index, field, exp, act)
    }

    fn tick_of(&self, a: usize) -> u32 {
        self.cfg.ticks[a]
    }

    /// conservative clock-discipline rule (see DESIGN §2.3 / §2.7)
    fn would_tie(&self, a: usize, bid: bool, price: u32, except: Option<usize>) -> bool {
        let t = self.models[a].t;
        self.models[a].has_resting_at(bid, price, t, except)
    }

    /// The volume bounds of the valid histories: the volume outstanding on one side (orders New or Active, the one being
    /// re-sized excepted) plus the new volume stays below 2^32, and so does the traded volume accumulated since the last
    /// reset plus the new volume. Completed orders release their volume, so a history may submit and trade far more than
    /// 2^32 in total.
    fn vol_ok(&self, a: usize, bid: bool, vol: u32, except: Option<usize>) -> bool {
        let m = &self.models[a];
        let out: u64 = m.orders.iter().filter(|o| o.o.bid == bid && (o.o.status == NEW || o.o.status == ACTIVE) && Some(o.o.id) != except).map(|o| o.o.vol as u64).sum();
        out + vol as u64 <= PMAX as u64 && m.trade_vol as u64 + vol as u64 <= PMAX as u64
    }

    /// The same bounds for an order that is created AND placed now: what counts towards its own side is only what will
    /// rest after it has traded against the volume it crosses (a large order that executes at once is a valid request even
    /// if its own side is nearly full).
    fn vol_ok_placed(&self, a: usize, bid: bool, vol: u32, price: Option<u32>) -> bool {
        let m = &self.models[a];
        let crossable: u64 = if !self.trading_a[a] {
            0
        } else {
            m.orders
                .iter()
                .filter(|o| o.o.bid != bid && o.o.status == ACTIVE)
                .filter(|o| match price {
                    None => true,
                    Some(p) => {
                        if bid {
                            o.o.price <= p
                        } else {
                            o.o.price >= p
                        }
                    }
                })
                .map(|o| o.o.vol as u64)
                .sum()
        };
        let trades = crossable.min(vol as u64);
        let rests = if price.is_none() { 0 } else { vol as u64 - trades };
        let out: u64 = m.orders.iter().filter(|o| o.o.bid == bid && (o.o.status == NEW || o.o.status == ACTIVE)).map(|o| o.o.vol as u64).sum();
        out + rests <= PMAX as u64 && m.trade_vol as u64 + trades <= PMAX as u64
    }

    /// a limit order on an end of the price domain that is an ordinary resting order: a buy at 0 (on every grid) or a sell
    /// at 2^32-1 (where the tick size divides it). The mirrored cases (sell at 0, buy at 2^32-1) are market orders.
    fn end_rests(&self, a: usize, bid: bool, p: u32) -> bool {
        (bid && p == 0) || (!bid && p == PMAX && PMAX % self.tick_of(a) == 0)
    }

    fn price_ok_create(&self, a: usize, bid: bool, price: Option<u32>, place: bool) -> bool {
        match price {
            None => true,
            Some(p) => {
                if p == 0 || p == PMAX {
                    // the two ends of the price domain are outside the valid limit prices of C01..C11; as *creation
                    // requests* they are part of C12's "arbitrary prices" (0 is a multiple of every tick size, 2^32-1 of
                    // some). They are placed only where they are ordinary resting orders (see `end_rests`, `place_valid`)
                    return self.cfg.allow_offgrid_create && (!place || self.end_rests(a, bid, p));
                }
                p % self.tick_of(a) == 0 || self.cfg.allow_offgrid_create
            }
        }
    }

    /// Translate an `Op` into primitives, or `None` if it is not a valid request in the current state.
    pub fn expand(&self, op: &Op) -> Option<Vec<Prim>> {
        let assets = self.cfg.assets;
        let lookup = |a: usize, ord: usize| -> Option<usize> {
            if a < assets {
                self.ids[a].get(ord).copied()
            } else {
                None
            }
        };
        match op {
            Op::Tick { dt } => {
                let t = self.models[0].t;
                let nt = t.checked_add(*dt)?;
                // (ordinary histories stay below T_LIMIT; after a jump to the top of the domain the clock may still advance
                // up to 2^64 - 1)
                if nt > T_LIMIT && t <= T_LIMIT {
                    return None;
                }
                Some(vec![Prim::Tick(nt)])
            }
            Op::TickTop { back } => {
                let nt = u64::MAX - *back as u64;
                if self.models[0].t >= nt {
                    return None;
                }
                Some(vec![Prim::Tick(nt)])
            }
            Op::Create { a, bid, vol, trader, price } | Op::CreatePlace { a, bid, vol, trader, price } => {
                let place = matches!(op, Op::CreatePlace { .. });
                if *a >= assets || *vol == 0 || !self.price_ok_create(*a, *bid, *price, place) {
                    return None;
                }
                let ok = if place && price.map(|p| p % self.tick_of(*a) == 0).unwrap_or(true) { self.vol_ok_placed(*a, *bid, *vol, *price) } else { self.vol_ok(*a, *bid, *vol, None) };
                if !ok {
                    return None;
                }
                if place && self.cfg.discipline {
                    if let Some(p) = price {
                        if p % self.tick_of(*a) == 0 && self.would_tie(*a, *bid, *p, None) {
                            return None;
                        }
                    }
                }
                Some(vec![Prim::Create { a: *a, bid: *bid, vol: *vol, trader: *trader, price: *price, place }])
            }
            Op::Place { a, ord } => {
                let id = lookup(*a, *ord)?;
                self.place_valid(*a, id)?;
                Some(vec![Prim::Place { a: *a, id, via_event: false }])
            }
            Op::Cancel { a, ord } => {
                let id = lookup(*a, *ord)?;
                Some(vec![Prim::Cancel { a: *a, id, via_event: false }])
            }
            Op::Modify { a, ord, price, vol } => {
                let id = lookup(*a, *ord)?;
                self.modify_valid(*a, id, *price, *vol)?;
                Some(vec![Prim::Modify { a: *a, id, price: *price, vol: *vol, via_event: false }])
            }
            Op::Event { a, kind, ord, price, vol } => {
                let id = lookup(*a, *ord)?;
                match kind {
                    EvKind::New => {
                        self.place_valid(*a, id)?;
                        Some(vec![Prim::Place { a: *a, id, via_event: true }])
                    }
                    EvKind::Cancel => Some(vec![Prim::Cancel { a: *a, id, via_event: true }]),
                    EvKind::Modify => {
                        self.modify_valid(*a, id, *price, *vol)?;
                        Some(vec![Prim::Modify { a: *a, id, price: *price, vol: *vol, via_event: true }])
                    }
                }
            }
            Op::Trading { on } => Some(vec![Prim::Trading(*on)]),
            Op::TradingAsset { a, on } => {
                if *a >= self.cfg.assets {
                    return None;
                }
                Some(vec![Prim::TradingAsset { a: *a, on: *on }])
            }
            Op::ResetTradeVol => Some(vec![Prim::ResetTradeVol]),
            Op::Snapshot { .. } | Op::Drain => Some(vec![]),
        }
    }

    fn place_valid(&self, a: usize, id: usize) -> Option<()> {
        {
            // cumulative traded volume (since the last reset) stays below 2^32: the order may trade its whole volume now
            let m = &self.models[a];
            let o = &m.orders[id];
            if o.o.status == NEW && m.trade_vol as u64 + o.o.vol as u64 > PMAX as u64 {
                return None;
            }
        }
        {
            // a limit order created on an end of the price domain (C12 creation requests only) is never placed
            let o = &self.models[a].orders[id];
            if !o.is_market && (o.o.price == 0 || o.o.price == PMAX) && !(self.cfg.allow_offgrid_create && self.end_rests(a, o.o.bid, o.o.price)) {
                return None;
            }
        }
        if self.cfg.discipline {
            let o = &self.models[a].orders[id];
            if o.o.status == NEW && !o.is_market && self.would_tie(a, o.o.bid, o.o.price, None) {
                return None;
            }
        }
        Some(())
    }

    fn modify_valid(&self, a: usize, id: usize, price: Option<u32>, vol: Option<u32>) -> Option<()> {
        if vol == Some(0) {
            return None;
        }
        if let Some(p) = price {
            if p == 0 || (p == PMAX && !(self.cfg.allow_offgrid_modify && PMAX % self.tick_of(a) != 0)) {
                // (2^32-1 as a re-price request is generated only where it is off the grid: C12's "arbitrary new prices")
                return None;
            }
            if p % self.tick_of(a) != 0 && !self.cfg.allow_offgrid_modify {
                return None;
            }
        }
        if let Some(v) = vol {
            let bid = self.models[a].orders[id].o.bid;
            if !self.vol_ok(a, bid, v, Some(id)) {
                return None;
            }
        } else if price.is_some() {
            // a re-price may trade the order's whole remaining volume
            let m = &self.models[a];
            let o = &m.orders[id];
            if o.o.status == ACTIVE && m.trade_vol as u64 + o.o.vol as u64 > PMAX as u64 {
                return None;
            }
        }
        if self.cfg.discipline {
            let o = &self.models[a].orders[id];
            if o.o.status == ACTIVE {
                let requeues = match (price, vol) {
                    (None, None) => false,
                    (None, Some(v)) => v >= o.o.vol,
                    _ => true,
                };
                if requeues {
                    let np = price.unwrap_or(o.o.price);
                    if self.would_tie(a, o.o.bid, np, Some(id)) {
                        return None;
                    }
                }
            }
        }
        Some(())
    }

    // -------------------------------------------------------------------------------------------

    fn observe(&self, who: &dyn Mkt) -> Result<Vec<BookObs>, String> {
        let with_mid = has(&self.cfg, mon::MID);
        guard(|| (0..self.cfg.assets).map(|a| who.obs(a, with_mid)).collect())
    }

    /// Apply one primitive to real object(s) and model(s), then run the monitors.
    fn apply(&mut self, p: &Prim) -> Result<(), Violation> {
        if self.model_only {
            let pre = std::mem::take(&mut self.prev);
            let mut created: Option<Result<usize, ()>> = None;
            for (a, mm) in self.models.iter_mut().enumerate() {
                if let Some(x) = apply_model(mm, a, p) {
                    created = Some(x);
                }
            }
            if let Prim::Trading(on) = p {
                self.trading_a.iter_mut().for_each(|x| *x = *on);
            }
            if let Prim::TradingAsset { a, on } = p {
                self.trading_a[*a] = *on;
            }
            self.trading = self.trading_a.iter().all(|x| *x);
            if let (Prim::Create { a, vol, price, .. }, Some(Ok(id))) = (p, created) {
                self.ids[*a].push(id);
                self.is_mkt[*a].push(price.is_none());
                self.vol_modified[*a].push(false);
                self.budget[*a] += *vol as u64;
            }
            if let Prim::Modify { a, id, vol: Some(v), .. } = p {
                if pre[*a].orders.get(*id).map(|o| o.status) == Some(ACTIVE) {
                    self.budget[*a] += *v as u64;
                }
            }
            let levels = self.cfg.levels;
            self.prev = self.models.iter().map(|m| m.obs(levels, false)).collect();
            return Ok(());
        }
        let cfg = self.cfg.clone();
        let pre = std::mem::take(&mut self.prev);
        // the flag that governs the book this operation addresses
        let pre_trading = match p {
            Prim::Create { a, .. } | Prim::Place { a, .. } | Prim::Cancel { a, .. } | Prim::Modify { a, .. } | Prim::TradingAsset { a, .. } => self.trading_a[*a],
            _ => self.trading,
        };
        // ---- real objects ----
        let mut create_res: Option<Result<(usize, usize), String>> = None;
        let r = {
            let real = &mut self.real;
            let twins = &mut self.twins;
            let shadows = &mut self.shadows;
            let cr = &mut create_res;
            guard(move || {
                let mut targets: Vec<(&mut Box<dyn Mkt>, bool)> = vec![(real, false)];
                for t in twins.iter_mut() {
                    targets.push((t, false));
                }
                for (k, (obj, _)) in targets.into_iter().enumerate() {
                    let res = apply_real(obj.as_mut(), p, None);
                    if k == 0 {
                        *cr = res;
                    }
                }
                // shadows: single-asset books, one per asset
                match p {
                    Prim::Tick(_) | Prim::Trading(_) | Prim::ResetTradeVol => {
                        for s in shadows.iter_mut() {
                            apply_real(s.as_mut(), p, Some(0));
                        }
                    }
                    Prim::Create { a, .. } | Prim::Place { a, .. } | Prim::Cancel { a, .. } | Prim::Modify { a, .. } | Prim::TradingAsset { a, .. } => {
                        if let Some(s) = shadows.get_mut(*a) {
                            apply_real(s.as_mut(), p, Some(0));
                        }
                    }
                }
            })
        };
        // ---- models ----
        let mut model_create: Option<Result<usize, ()>> = None;
        for set in [&mut self.models, &mut self.coll] {
            for (a, mm) in set.iter_mut().enumerate() {
                let r = apply_model(mm, a, p);
                if model_create.is_none() {
                    if let Some(x) = r {
                        model_create = Some(x);
                    }
                }
            }
        }
        // harness-side bookkeeping that does not depend on any oracle
        match p {
            Prim::Trading(on) => {
                self.trading_a.iter_mut().for_each(|x| *x = *on);
                self.trading = *on;
                if !*on {
                    self.ever_disabled = true;
                }
            }
            Prim::TradingAsset { a, on } => {
                if self.trading_a[*a] == *on {
                    self.stats.probe("redundant_trading_switch");
                }
                self.trading_a[*a] = *on;
                self.trading = self.trading_a.iter().all(|x| *x);
                if !*on {
                    self.ever_disabled = true;
                }
                self.stats.probe("book_level_trading_switch");
            }
            Prim::Tick(_) => {}
            _ => {}
        }
        if let Err(msg) = r {
            return Err(self.classify_panic(msg, "operation"));
        }
        let post = match self.observe(self.real.as_ref()) {
            Ok(o) => o,
            Err(msg) => return Err(self.classify_panic(msg, "observation")),
        };
        // creation bookkeeping
        if let Prim::Create { a, vol, price, .. } = p {
            match &create_res {
                Some(Ok((ra, id))) => {
                    if *ra != *a {
                        return Err(self.viol("asset-interference", "create.asset", a.to_string(), ra.to_string()));
                    }
                    self.ids[*a].push(*id);
                    self.is_mkt[*a].push(price.is_none());
                    self.vol_modified[*a].push(false);
                    self.budget[*a] += *vol as u64;
                }
                _ => {}
            }
        }
        if let Prim::Modify { a, id, vol: Some(v), .. } = p {
            if pre[*a].orders.get(*id).map(|o| o.status) == Some(ACTIVE) {
                self.budget[*a] += *v as u64;
                self.vol_modified[*a][*id] = true;
            }
        }
        // ---- monitors ----
        // tie classification (C05): does the exact twin of the pinned side.rs maps explain the real object?
        let coll_now = !self.coll.is_empty() && {
            let with_mid = has(&cfg, mon::MID);
            let levels = self.real.levels();
            (0..cfg.assets).all(|a| self.coll[a].poisoned.is_none() && self.coll[a].obs(levels, with_mid).diff(&post[a]).is_none())
        };
        if let Err(v) = self.run_monitors(&cfg, p, &pre, &post, pre_trading, &create_res, &model_create) {
            let any_collision = self.models.iter().any(|mm| mm.collisions > 0);
            self.prev = post.clone();
            if has(&cfg, mon::TIE_CLASSIFY) && any_collision && self.coll_ok && coll_now && v.class != "tie-key-collision" {
                return Err(self
                    .viol("tie-key-collision", &v.field, v.expected.clone(), v.actual.clone())
                    .site("side.rs::insert_order")
                    .detail(format!("raised as {} by a monitor; orders sharing (side, price, timestamp) collide in the priority map and the real object equals the key-collision twin exactly", v.class)));
            }
            return Err(v);
        }
        // stats
        for o in &post {
            self.stats.state_digests.push(o.state_digest());
        }
        self.probe_points(p, &pre, &post);
        self.prev = post;
        Ok(())
    }

    #[allow(clippy::too_many_arguments)]
    fn run_monitors(
        &mut self,
        cfg: &W1Cfg,
        p: &Prim,
        pre: &[BookObs],
        post: &[BookObs],
        pre_trading: bool,
        create_res: &Option<Result<(usize, usize), String>>,
        model_create: &Option<Result<usize, ()>>,
    ) -> Result<(), Violation> {
        let ctx = m::Ctx {
            prop: &self.prop,
            op_index: self.op_index,
            cfg,
            prim: p,
            pre,
            post,
            pre_trading,
            trading: self.trading,
            ever_disabled: self.ever_disabled,
            create_res,
            is_mkt: &self.is_mkt,
            vol_modified: &self.vol_modified,
        };
        if has(cfg, mon::GRID) {
            m::grid(&ctx)?;
        }
        if has(cfg, mon::RECOMPUTE) {
            m::recompute(&ctx)?;
        }
        if has(cfg, mon::LEDGER) {
            m::ledger(&ctx, &mut self.since_reset)?;
        }
        if has(cfg, mon::LIFECYCLE) {
            m::lifecycle(&ctx)?;
        }
        if has(cfg, mon::NOOP) {
            m::noop(&ctx)?;
        }
        if has(cfg, mon::MODIFY_INV) {
            m::modify_inv(&ctx)?;
        }
        if has(cfg, mon::HALT) {
            m::halt(&ctx)?;
        }
        if has(cfg, mon::TWIN) {
            for k in 0..self.twins.len() {
                let tw = match self.observe(self.twins[k].as_ref()) {
                    Ok(o) => o,
                    Err(msg) => return Err(self.classify_panic(msg, "twin observation")),
                };
                let n = self.twins[k].levels().min(self.real.levels());
                for a in 0..cfg.assets {
                    if let Some(d) = trim_levels(&post[a], n).diff(&trim_levels(&tw[a], n)) {
                        return Err(self
                            .viol("snapshot-diverged", &format!("asset{}.{}", a, d.0), d.1, d.2)
                            .detail(format!("twin #{} (restored from a snapshot) differs from the original after identical operations", k)));
                    }
                }
            }
        }
        if has(cfg, mon::SHADOW) {
            self.check_shadows(p, pre, post)?;
        }
        if has(cfg, mon::MODEL) || has(cfg, mon::TIE_CLASSIFY) {
            self.check_model(post, create_res, model_create)?;
        }
        Ok(())
    }

    fn classify_panic(&self, msg: String, during: &str) -> Violation {
        // tie classification: the KeyCollision twin predicts the abort
        if has(&self.cfg, mon::TIE_CLASSIFY) && self.coll_ok && self.coll.iter().any(|c| c.poisoned.is_some()) && self.models.iter().any(|mm| mm.collisions > 0) {
            return self
                .viol("tie-key-collision", "panic", "no abort".into(), msg)
                .site("side.rs::insert_order")
                .detail(format!("abort during {} predicted by the key-collision twin", during));
        }
        // known finding KF-C05-2: at the top of the clock's domain (key time 2^64 - 1) there is no later key left, the
        // "queue behind the last order at this price" bump of the key time overflows. Named by what fails (an addition
        // overflowing inside side.rs while the clock stands within 64 units of 2^64 - 1), not by a line number.
        if msg.contains("attempt to add with overflow") && msg.contains("side.rs") && self.models.iter().any(|m| m.t >= u64::MAX - 64) {
            return self.viol("panic", during, "no abort".into(), msg).site("side.rs::queue_key@clock-top").detail("tie at the last representable instants: the key time cannot be moved behind 2^64 - 1".into());
        }
        let site = if msg.contains("orderbook.rs:274") || (during == "observation" && has(&self.cfg, mon::MID) && msg.contains("subtract with overflow") && msg.contains("orderbook.rs")) {
            "orderbook.rs::mid_price"
        } else {
            ""
        };
        self.viol("panic", during, "no abort".into(), msg).site(site)
    }

    fn check_model(&mut self, post: &[BookObs], create_res: &Option<Result<(usize, usize), String>>, model_create: &Option<Result<usize, ()>>) -> Result<(), Violation> {
        let with_mid = has(&self.cfg, mon::MID);
        let levels = self.real.levels();
        // creation result must agree
        if let (Some(r), Some(mres)) = (create_res, model_create) {
            if r.is_ok() != mres.is_ok() {
                return Err(self.viol("model-mismatch", "create.result", format!("{:?}", mres.is_ok()), format!("{:?}", r.is_ok())));
            }
        }
        let mut coll_match = true;
        if !self.coll.is_empty() {
            for a in 0..self.cfg.assets {
                if self.coll[a].poisoned.is_some() || self.coll[a].obs(levels, with_mid).diff(&post[a]).is_some() {
                    coll_match = false;
                }
            }
        }
        for a in 0..self.cfg.assets {
            let exp = self.models[a].obs(levels, with_mid);
            if let Some(d) = exp.diff(&post[a]) {
                let any_collision = self.models.iter().any(|mm| mm.collisions > 0);
                if has(&self.cfg, mon::TIE_CLASSIFY) && any_collision && self.coll_ok && coll_match {
                    return Err(self
                        .viol("tie-key-collision", &format!("asset{}.{}", a, d.0), d.1, d.2)
                        .site("side.rs::insert_order")
                        .detail("orders sharing (side, price, timestamp) collide in the priority map; behaviour equals the key-collision twin exactly".into()));
                }
                return Err(self.viol("model-mismatch", &format!("asset{}.{}", a, d.0), d.1, d.2));
            }
        }
        if !coll_match {
            self.coll_ok = false;
        }
        Ok(())
    }

    fn check_shadows(&mut self, p: &Prim, pre: &[BookObs], post: &[BookObs]) -> Result<(), Violation> {
        let with_mid = has(&self.cfg, mon::MID);
        let touched: Option<usize> = match p {
            Prim::Create { a, .. } | Prim::Place { a, .. } | Prim::Cancel { a, .. } | Prim::Modify { a, .. } => Some(*a),
            _ => None,
        };
        let mut sh = vec![];
        for a in 0..self.cfg.assets {
            let so = match guard(|| self.shadows[a].obs(0, with_mid)) {
                Ok(o) => o,
                Err(msg) => return Err(self.classify_panic(msg, "shadow observation")),
            };
            if let Some(d) = so.diff(&post[a]) {
                return Err(self
                    .viol("asset-interference", &format!("asset{}.{}", a, d.0), d.1, d.2)
                    .detail("asset differs from a stand-alone order book fed the same operations at the same times".into()));
            }
            if let Some(t) = touched {
                if t != a {
                    if let Some(d) = pre[a].diff(&post[a]) {
                        return Err(self
                            .viol("asset-interference", &format!("asset{}.{}", a, d.0), d.1, d.2)
                            .detail(format!("operation addressed to asset {} changed asset {}", t, a)));
                    }
                }
            }
            sh.push(so);
        }
        if let Some(agg) = guard(|| self.real.agg()).map_err(|msg| self.classify_panic(msg, "aggregate queries"))? {
            let exp = MarketAgg {
                trade_vols: sh.iter().map(|o| o.trade_vol).collect(),
                bid_vols: sh.iter().map(|o| o.bid_vol).collect(),
                bid_best_vols: sh.iter().map(|o| o.bid_best_vol).collect(),
                bid_best: sh.iter().map(|o| o.bid_best).collect(),
                bid_levels: sh.iter().map(|o| o.bid_levels.clone()).collect(),
                ask_vols: sh.iter().map(|o| o.ask_vol).collect(),
                ask_best_vols: sh.iter().map(|o| o.ask_best_vol).collect(),
                ask_best: sh.iter().map(|o| o.ask_best).collect(),
                ask_levels: sh.iter().map(|o| o.ask_levels.clone()).collect(),
                bid_asks: sh.iter().map(|o| o.bid_ask).collect(),
                l2: sh.iter().map(|o| o.l2.clone()).collect(),
            };
            if agg != exp {
                return Err(self.viol("asset-interference", "all-asset queries", format!("{:?}", exp), format!("{:?}", agg)));
            }
            if guard(|| self.real.time()).unwrap_or(0) != sh[0].t {
                return Err(self.viol("asset-interference", "market.time", sh[0].t.to_string(), self.real.time().to_string()));
            }
            // order(asset, id) accessor
            for a in 0..self.cfg.assets {
                if let Some(last) = post[a].orders.last() {
                    let got = self.real.order(a, last.id);
                    if got != *last {
                        return Err(self.viol("asset-interference", "order((asset,id))", format!("{:?}", last), format!("{:?}", got)));
                    }
                }
            }
        }
        Ok(())
    }

    fn probe_points(&mut self, p: &Prim, pre: &[BookObs], post: &[BookObs]) {
        let a = match p {
            Prim::Create { a, .. } | Prim::Place { a, .. } | Prim::Cancel { a, .. } | Prim::Modify { a, .. } => *a,
            _ => return,
        };
        let new_trades = &post[a].trades[pre[a].trades.len().min(post[a].trades.len())..];
        if !new_trades.is_empty() {
            self.stats.probe("op_with_trades");
            let prices: std::collections::BTreeSet<u32> = new_trades.iter().map(|t| t.price).collect();
            if prices.len() >= 2 {
                self.stats.probe("aggressor_swept_2plus_levels");
            }
            if new_trades.len() >= 2 && prices.len() < new_trades.len() {
                self.stats.probe("same_price_fifo_consumed_2plus");
            }
            let last = new_trades.last().unwrap();
            if post[a].orders[last.passive].status == ACTIVE {
                self.stats.probe("partial_fill_of_queue_head");
            }
            if new_trades[0].bid {
                self.stats.probe("trade_passive_bid");
            } else {
                self.stats.probe("trade_passive_ask");
            }
            if matches!(p, Prim::Modify { .. }) {
                self.stats.probe("modify_traded");
            }
        }
        match p {
            Prim::Cancel { id, .. } => {
                if pre[a].orders[*id].status == ACTIVE && pre[a].orders[*id].vol < pre[a].orders[*id].start_vol {
                    self.stats.probe("cancel_of_partially_filled");
                }
                if pre[a].orders[*id].status != ACTIVE {
                    self.stats.probe("redundant_cancel");
                }
            }
            Prim::Place { id, .. } => {
                if pre[a].orders[*id].status != NEW {
                    self.stats.probe("redundant_place");
                }
            }
            Prim::Modify { id, price, vol, .. } => {
                let o = &pre[a].orders[*id];
                if o.status != ACTIVE {
                    self.stats.probe("redundant_modify");
                } else {
                    match (price, vol) {
                        (None, None) => self.stats.probe("modify_nothing"),
                        (None, Some(v)) if *v < o.vol => self.stats.probe("modify_reduce_in_place"),
                        (None, Some(v)) if *v == o.vol => self.stats.probe("modify_equal_volume"),
                        (None, Some(_)) => self.stats.probe("modify_increase"),
                        (Some(_), _) => self.stats.probe("modify_reprice"),
                    }
                }
            }
            Prim::Create { place: true, price: None, .. } => {
                if let Some(o) = post[a].orders.last() {
                    match o.status {
                        CANCELLED => self.stats.probe("market_remainder_cancelled"),
                        REJECTED => self.stats.probe("market_rejected_while_halted"),
                        _ => {}
                    }
                }
            }
            _ => {}
        }
        for o in post.iter() {
            if o.bid_best.1 >= 3 || o.ask_best.1 >= 3 {
                self.stats.probe("same_price_depth_3plus");
                break;
            }
        }
        if post[a].bid_ask.0 >= post[a].bid_ask.1 && post[a].bid_vol > 0 && post[a].ask_vol > 0 {
            self.stats.probe("crossed_book_state");
        }
    }

    // -------------------------------------------------------------------------------------------

    fn snapshot(&mut self, how: u8, into_levels: usize, keep: bool, truncate: bool) -> Result<(), Violation> {
        if self.model_only {
            return Ok(());
        }
        let cfg = self.cfg.clone();
        let valid_l = if cfg.market { MARKET_LEVELS.contains(&into_levels) } else { BOOK_LEVELS.contains(&into_levels) };
        if !valid_l {
            self.stats.skipped_ops += 1;
            return Ok(());
        }
        let pretty = how == 1 || how == 3;
        let via_file = how >= 2;
        // one path per run, deliberately re-used (and not removed in between): a snapshot written over an older,
        // longer file (pretty then compact, or a book that shrank) must still load back
        let path = format!("{}/snap.json", self.run_dir);
        let restored: Result<Result<Box<dyn Mkt>, String>, String> = if via_file {
            if self.run_dir.is_empty() {
                self.stats.skipped_ops += 1;
                return Ok(());
            }
            let real = &self.real;
            let before = std::fs::metadata(&path).map(|m| m.len()).unwrap_or(0);
            let r = guard(|| {
                real.save(&path, pretty)?;
                mkt_load(cfg.market, cfg.assets, into_levels, &path)
            });
            let after = std::fs::metadata(&path).map(|m| m.len()).unwrap_or(0);
            if before > after && after > 0 {
                self.stats.probe("snapshot_over_longer_file");
            }
            r
        } else {
            let real = &self.real;
            guard(|| {
                let s = real.to_json(pretty);
                mkt_from_json(cfg.market, cfg.assets, into_levels, &s)
            })
        };
        self.stats.fault(match how {
            0 => "restart_via_to_string",
            1 => "restart_via_to_string_pretty",
            2 => "restart_via_file_compact",
            _ => "restart_via_file_pretty",
        });
        let restored = match restored {
            Err(msg) => return Err(self.classify_panic(msg, "snapshot save/load")),
            Ok(Err(e)) => return Err(self.viol("snapshot-diverged", "load", "Ok".into(), format!("Err({})", e))),
            Ok(Ok(r)) => r,
        };
        // immediate equality
        let ro = match self.observe(restored.as_ref()) {
            Ok(o) => o,
            Err(msg) => return Err(self.classify_panic(msg, "restored observation")),
        };
        if has(&cfg, mon::TWIN) {
            let n = into_levels.min(self.real.levels());
            for a in 0..cfg.assets {
                if let Some(d) = trim_levels(&self.prev[a], n).diff(&trim_levels(&ro[a], n)) {
                    return Err(self
                        .viol("snapshot-diverged", &format!("asset{}.{}", a, d.0), d.1, d.2)
                        .detail("restored object differs from the original immediately after loading".into()));
                }
            }
        }
        if self.prev.iter().any(|o| o.orders.iter().any(|x| x.status == ACTIVE && x.vol < x.start_vol)) {
            self.stats.probe("restart_with_partially_filled_order");
        }
        if self.prev.iter().any(|o| o.orders.iter().any(|x| x.status == NEW)) {
            self.stats.probe("restart_with_unplaced_order");
        }
        if !self.trading {
            self.stats.probe("restart_while_halted");
        }
        if via_file && truncate {
            self.truncation(&path, into_levels)?;
        }
        if via_file {
            self.stats.probe("file_snapshots");
            if std::fs::metadata(&path).map(|m| m.len()).unwrap_or(0) > (1 << 20) {
                self.stats.probe("snapshot_file_over_1_mib");
            }
        }
        if keep && self.twins.len() < MAX_TWINS {
            self.twins.push(restored);
            self.stats.probe("twin_kept");
        } else {
            // the models follow the object under test: its indexes were just rebuilt from the order list
            for set in [&mut self.models, &mut self.coll] {
                for mm in set.iter_mut() {
                    mm.reload();
                }
            }
            // crash-restart: only the durable state survives
            let old_levels = self.real.levels();
            self.real = restored;
            // the stand-alone shadow books (C14) crash-restart too, into the same number of published levels
            if has(&cfg, mon::SHADOW) {
                for k in 0..self.shadows.len() {
                    let sh = &self.shadows[k];
                    let r = guard(|| {
                        let js = sh.to_json(false);
                        mkt_from_json(false, 1, into_levels, &js)
                    });
                    match r {
                        Ok(Ok(b)) => self.shadows[k] = b,
                        Ok(Err(e)) => return Err(self.viol("snapshot-diverged", "shadow load", "Ok".into(), format!("Err({})", e))),
                        Err(msg) => return Err(self.classify_panic(msg, "shadow snapshot save/load")),
                    }
                }
            }
            // the restart itself is a no-op on everything observable: the model-free monitors of this profile see it as
            // an operation that changes nothing (a clock set to the time it already shows)
            {
                let n = into_levels.min(old_levels);
                let pre_t: Vec<BookObs> = self.prev.iter().map(|o| trim_levels(o, n)).collect();
                let post_t: Vec<BookObs> = ro.iter().map(|o| trim_levels(o, n)).collect();
                let t_now = pre_t.first().map(|o| o.t).unwrap_or(0);
                let prim = Prim::Tick(t_now);
                let ctx = m::Ctx {
                    prop: &self.prop,
                    op_index: self.op_index,
                    cfg: &cfg,
                    prim: &prim,
                    pre: &pre_t,
                    post: &post_t,
                    pre_trading: self.trading,
                    trading: self.trading,
                    ever_disabled: self.ever_disabled,
                    create_res: &None,
                    is_mkt: &self.is_mkt,
                    vol_modified: &self.vol_modified,
                };
                let mut r: Result<(), Violation> = Ok(());
                if r.is_ok() && has(&cfg, mon::GRID) {
                    r = m::grid(&ctx);
                }
                if r.is_ok() && has(&cfg, mon::RECOMPUTE) {
                    r = m::recompute(&ctx);
                }
                if r.is_ok() && has(&cfg, mon::LEDGER) {
                    r = m::ledger(&ctx, &mut self.since_reset);
                }
                if r.is_ok() && has(&cfg, mon::LIFECYCLE) {
                    r = m::lifecycle(&ctx);
                }
                if r.is_ok() && has(&cfg, mon::NOOP) {
                    r = m::noop(&ctx);
                }
                if r.is_ok() && has(&cfg, mon::HALT) {
                    r = m::halt(&ctx);
                }
                if let Err(v) = r {
                    return Err(v.detail("raised by the crash-restart through JSON itself (the restored object, observed before any further operation)".into()));
                }
            }
            self.prev = ro;
            self.stats.probe("crash_restart");
            if into_levels != cfg.levels {
                self.stats.probe("restart_into_other_level_count");
            }
        }
        // under the KeyCollision twin a reload may already diverge; compare now
        if has(&cfg, mon::MODEL) || has(&cfg, mon::TIE_CLASSIFY) {
            let post = self.prev.clone();
            self.check_model(&post, &None, &None)?;
        }
        Ok(())
    }

    /// torn-write fault: every strict prefix of the file must be rejected by `load_json`
    fn truncation(&mut self, path: &str, into_levels: usize) -> Result<(), Violation> {
        let cfg = self.cfg.clone();
        let bytes = match std::fs::read(path) {
            Ok(b) => b,
            Err(_) => return Ok(()),
        };
        let n = bytes.len();
        // the cut is made either on a copy under another name or in place, on the very path the snapshot was saved to
        // (and possibly saved to before: whatever an earlier save left next to it must not stand in for the torn file)
        let in_place = self.op_index % 2 == 1;
        let tpath = if in_place { path.to_string() } else { format!("{}.torn", path) };
        if !in_place && std::fs::write(&tpath, &bytes).is_err() {
            return Ok(());
        }
        if in_place {
            self.stats.fault("torn_write_in_place");
        }
        let f = match std::fs::OpenOptions::new().write(true).open(&tpath) {
            Ok(f) => f,
            Err(_) => return Ok(()),
        };
        // all offsets when small; otherwise a deterministic sample plus every offset next to a structural byte
        let offsets: Vec<usize> = if n <= 16 * 1024 {
            (0..n).rev().collect()
        } else {
            let mut v: Vec<usize> = Vec::new();
            let stride = (n / 2048).max(1);
            for i in (0..n).rev() {
                let b = bytes[i];
                let structural = matches!(b, b'{' | b'}' | b'[' | b']' | b',' | b':');
                if i % stride == 0 || (structural && (i % 7 == 0)) || i + 64 >= n || i < 64 {
                    v.push(i);
                }
            }
            v
        };
        let mut res: Result<(), Violation> = Ok(());
        for off in offsets {
            // a prefix that only drops trailing JSON whitespace is still the whole document
            if bytes[off..].iter().all(|b| b.is_ascii_whitespace()) {
                continue;
            }
            if f.set_len(off as u64).is_err() {
                break;
            }
            self.stats.fault("torn_write_offset");
            let r = guard(|| mkt_load(cfg.market, cfg.assets, into_levels, &tpath).is_ok());
            match r {
                Ok(false) => {}
                Ok(true) => {
                    res = Err(self
                        .viol("truncated-accepted", "load_json", "Err".into(), "Ok".into())
                        .detail(format!("file of {} bytes cut to {} bytes was loaded", n, off)));
                    break;
                }
                Err(msg) => {
                    res = Err(self.viol("truncated-panicked", "load_json", "Err".into(), msg).detail(format!("file of {} bytes cut to {} bytes", n, off)));
                    break;
                }
            }
        }
        drop(f);
        if in_place {
            // the complete snapshot is put back (a later save may go over it)
            let _ = std::fs::write(&tpath, &bytes);
        } else {
            let _ = std::fs::remove_file(&tpath);
        }
        res
    }

    fn drain(&mut self) -> Result<(), Violation> {
        self.stats.probe("drain_probe");
        if !self.trading {
            self.apply(&Prim::Trading(true))?;
        }
        self.apply(&Prim::ResetTradeVol)?;
        for a in 0..self.cfg.assets {
            for bid in [true, false] {
                let opp = if bid { self.prev[a].ask_vol } else { self.prev[a].bid_vol };
                // volume is taken from the harness's own view of the orders, not from the published totals
                let resting: u64 = self.prev[a].orders.iter().filter(|o| o.status == ACTIVE && o.bid != bid).map(|o| o.vol as u64).sum();
                let _ = opp;
                if resting > 0 && resting <= PMAX as u64 {
                    // (each probe order on a fresh counter: the two sides together may hold more than 2^32)
                    self.apply(&Prim::ResetTradeVol)?;
                    self.apply(&Prim::Create { a, bid, vol: resting as u32, trader: 9999, price: None, place: true })?;
                }
            }
        }
        Ok(())
    }

    pub fn run(&mut self, ops: &[Op]) -> Option<Violation> {
        for (i, op) in ops.iter().enumerate() {
            if self.stop {
                break;
            }
            self.op_index = i;
            let r = match op {
                Op::Snapshot { how, into_levels, keep, truncate } => self.snapshot(*how, *into_levels, *keep, *truncate),
                Op::Drain => self.drain(),
                _ => match self.expand(op) {
                    None => {
                        self.stats.skipped_ops += 1;
                        Ok(())
                    }
                    Some(prims) => {
                        let mut r = Ok(());
                        for p in prims {
                            r = self.apply(&p);
                            if r.is_err() {
                                break;
                            }
                            self.stats.ops += 1;
                            self.count_faults(&p);
                        }
                        r
                    }
                },
            };
            if let Err(v) = r {
                return Some(v);
            }
        }
        None
    }

    fn count_faults(&mut self, p: &Prim) {
        match p {
            Prim::Tick(nt) => {
                let dt = nt - self.prev.first().map(|_| 0).unwrap_or(0);
                let _ = dt;
            }
            Prim::Trading(false) | Prim::TradingAsset { on: false, .. } => self.stats.fault("trading_halt"),
            Prim::Trading(true) | Prim::TradingAsset { on: true, .. } => self.stats.fault("trading_resume"),
            Prim::Create { a, price: Some(p), .. } if p % self.cfg.ticks[*a] != 0 => self.stats.fault("offgrid_create_request"),
            Prim::Modify { a, price: Some(p), .. } if p % self.cfg.ticks[*a] != 0 => self.stats.fault("offgrid_reprice_request"),
            _ => {}
        }
    }
}

fn apply_real(obj: &mut dyn Mkt, p: &Prim, force_asset: Option<usize>) -> Option<Result<(usize, usize), String>> {
    let fa = |a: usize| force_asset.unwrap_or(a);
    match p {
        Prim::Tick(t) => {
            obj.set_time(*t);
            None
        }
        Prim::Create { a, bid, vol, trader, price, place } => Some(if *place {
            obj.create_and_place(fa(*a), *bid, *vol, *trader, *price)
        } else {
            obj.create(fa(*a), *bid, *vol, *trader, *price)
        }),
        Prim::Place { a, id, via_event } => {
            if *via_event {
                obj.event(fa(*a), EvKind::New, *id, None, None)
            } else {
                obj.place(fa(*a), *id)
            }
            None
        }
        Prim::Cancel { a, id, via_event } => {
            if *via_event {
                obj.event(fa(*a), EvKind::Cancel, *id, None, None)
            } else {
                obj.cancel(fa(*a), *id)
            }
            None
        }
        Prim::Modify { a, id, price, vol, via_event } => {
            if *via_event {
                obj.event(fa(*a), EvKind::Modify, *id, *price, *vol)
            } else {
                obj.modify(fa(*a), *id, *price, *vol)
            }
            None
        }
        Prim::Trading(on) => {
            if *on {
                obj.enable_trading()
            } else {
                obj.disable_trading()
            }
            None
        }
        Prim::TradingAsset { a, on } => {
            obj.set_trading_asset(fa(*a), *on);
            None
        }
        Prim::ResetTradeVol => {
            obj.reset_trade_vols();
            None
        }
    }
}

/// Apply a primitive to the model of asset `a_idx`; returns the creation result if it created.
pub fn apply_model(mm: &mut Model, a_idx: usize, p: &Prim) -> Option<Result<usize, ()>> {
    if mm.poisoned.is_some() {
        return None;
    }
    match p {
        Prim::Tick(t) => {
            mm.set_time(*t);
            None
        }
        Prim::Trading(on) => {
            if *on {
                mm.enable_trading()
            } else {
                mm.disable_trading()
            }
            None
        }
        Prim::TradingAsset { a, on } => {
            if *a == a_idx {
                if *on {
                    mm.enable_trading()
                } else {
                    mm.disable_trading()
                }
            }
            None
        }
        Prim::ResetTradeVol => {
            mm.reset_trade_vol();
            None
        }
        Prim::Create { a, bid, vol, trader, price, place } if *a == a_idx => {
            let r = mm.create(*bid, *vol, *trader, *price);
            if let (Ok(id), true) = (r, *place) {
                mm.place(id);
            }
            Some(r)
        }
        Prim::Place { a, id, .. } if *a == a_idx => {
            mm.place(*id);
            None
        }
        Prim::Cancel { a, id, .. } if *a == a_idx => {
            mm.cancel(*id);
            None
        }
        Prim::Modify { a, id, price, vol, .. } if *a == a_idx => {
            mm.modify(*id, *price, *vol);
            None
        }
        _ => None,
    }
}

/// Execute a W1/W2 scenario. `run_dir` is a scratch directory for snapshot files ("" disables file faults).
pub fn execute(scn: &W1Scn, run_dir: &str) -> RunOutcome {
    let mut ex = match guard(|| Exec::new(&scn.cfg)) {
        Ok(e) => e,
        Err(msg) => {
            return RunOutcome {
                violation: Some(Violation::new(&scn.cfg.property, "panic", 0, "construction", "no abort".into(), msg)),
                stats: RunStats::default(),
            }
        }
    };
    ex.run_dir = run_dir.to_string();
    let v = ex.run(&scn.ops);
    if !run_dir.is_empty() {
        let _ = std::fs::remove_file(format!("{}/snap.json", run_dir));
    }
    let mut stats = std::mem::take(&mut ex.stats);
    // distinct short operation prefixes (reach measure for the dense small-alphabet corner)
    {
        let mut h = Fnv::new();
        h.u64(scn.cfg.ticks[0] as u64);
        h.u64(scn.cfg.trading0 as u64);
        for op in scn.ops.iter().take(4) {
            h.bytes(serde_json::to_string(op).unwrap_or_default().as_bytes());
            stats.prefix_digests.push(h.0);
        }
    }
    stats.sim_time = ex.models[0].t - scn.cfg.t0.min(ex.models[0].t);
    let mut h = Fnv::new();
    for o in &ex.prev {
        h.u64(o.digest());
    }
    stats.end_digest = h.0;
    stats.probe_n("tie_collisions", ex.models.iter().map(|m| m.collisions).sum());
    RunOutcome { violation: v, stats }
}
