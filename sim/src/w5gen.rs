//! Seeded generation of W5 call scripts (C18: OrderBook / StepEnv; C19: layouts).
use crate::model::{Model, Tie};
use crate::obs::*;
use crate::rng::{SeamRng, SimRng};
use crate::w5::{big, PyCall, W5Scn};
use rand::seq::SliceRandom;
use serde_json::{json, Value};

fn call(o: &str, m: &str, a: Vec<Value>) -> PyCall {
    PyCall { k: "call".into(), o: o.into(), m: m.into(), a }
}
fn prop(o: &str, m: &str) -> PyCall {
    PyCall { k: "prop".into(), o: o.into(), m: m.into(), a: vec![] }
}
fn opt(v: Option<u32>) -> Value {
    match v {
        Some(x) => json!(x),
        None => Value::Null,
    }
}

/// an integer outside the target type: 2^32 (u32 only), 2^64, -1
fn out_of_range(r: &mut SimRng, is_u32: bool) -> Value {
    match r.below(if is_u32 { 4 } else { 3 }) {
        0 => big(-1),
        1 => big(1i128 << 64),
        2 => big(-(1i128 << 40)),
        _ => big(1i128 << 32),
    }
}

struct G<'a> {
    r: &'a mut SimRng,
    m: Model,
    tick: u32,
    centre: u32,
    calls: Vec<PyCall>,
    snaps: usize,
    /// whale volumes still available per side [bid, ask] in units of 2^30 (0 = ordinary volumes only); at most 3 * 2^30
    /// per side, so side totals and per-step traded volume stay below 2^32
    whale: [u8; 2],
    depth: u32,
}

impl<'a> G<'a> {
    fn price(&mut self, bid: bool, passive: bool) -> u32 {
        // `depth` ticks on each side of the centre: deep enough in the layout scripts to populate all 10 published levels
        let k = self.r.range(0, self.depth as u64) as u32;
        // clamped to the valid limit prices: books hugging the bottom (lowest grid price = one tick) or the top of the
        // price range occur when the centre lies within `depth` ticks of an end
        let top = (PMAX - 1) / self.tick;
        let p = if passive == bid { (self.centre as i64 - 1 - k as i64).max(1) as u32 } else { (self.centre as u64 + 1 + k as u64).min(top as u64) as u32 };
        p * self.tick
    }
    fn vol(&mut self, bid: bool) -> u32 {
        let k = if bid { 0 } else { 1 };
        if self.whale[k] > 0 && self.r.chance(0.4) {
            let units = if self.whale[k] >= 2 && self.r.chance(0.5) { 2 } else { 1 };
            self.whale[k] -= units;
            return (units as u32) << 30;
        }
        // asymmetric by construction: bid and ask volumes come from disjoint ranges
        if bid {
            self.r.range(1, 10) as u32
        } else {
            self.r.range(11, 40) as u32
        }
    }
    fn pick(&mut self, st: u8) -> Option<usize> {
        let c: Vec<usize> = self.m.orders.iter().filter(|o| o.o.status == st).map(|o| o.o.id).collect();
        if c.is_empty() {
            None
        } else {
            Some(c[self.r.usize(c.len())])
        }
    }
    fn any(&mut self) -> Option<usize> {
        let n = self.m.orders.len();
        if n == 0 {
            None
        } else {
            Some(self.r.usize(n))
        }
    }
    /// (bid, vol, trader, price) of a new order
    fn new_order(&mut self) -> (bool, u32, u32, Option<u32>) {
        let bid = self.r.chance(0.5);
        let vol = self.vol(bid);
        let trader = self.r.below(50) as u32;
        let mut price = match self.r.below(10) {
            0 | 1 => None,
            2..=4 => Some(self.price(bid, false)),
            _ => Some(self.price(bid, true)),
        };
        // the bottom of the price domain is an ordinary in-range argument: a buy limit at price 0 rests below everything
        if bid && self.r.chance(0.03) {
            price = Some(0);
        }
        (bid, vol, trader, price)
    }
    fn faulty_place(&mut self, o: &str) {
        let (bid, vol, trader, price) = self.new_order();
        let p = price.unwrap_or(self.centre * self.tick);
        let a = match self.r.below(5) {
            0 if self.tick > 1 => vec![json!(bid), json!(vol), json!(trader), json!(p + 1 + self.r.below(self.tick as u64 - 1) as u32)], // off grid -> ValueError
            1 => vec![json!(bid), out_of_range(self.r, true), json!(trader), json!(p)],
            2 => vec![json!(bid), json!(vol), out_of_range(self.r, true), json!(p)],
            3 => vec![json!(bid), json!(vol), json!(trader), out_of_range(self.r, true)],
            _ => vec![json!(bid), json!(vol), out_of_range(self.r, true), out_of_range(self.r, true)],
        };
        self.calls.push(call(o, "place_order", a));
    }
    fn faulty_other(&mut self, o: &str, is_book: bool) {
        let id = self.any().unwrap_or(0);
        match self.r.below(if is_book { 6 } else { 5 }) {
            0 => self.calls.push(call(o, "cancel_order", vec![out_of_range(self.r, false)])),
            1 => self.calls.push(call(o, "modify_order", vec![out_of_range(self.r, false), Value::Null, json!(3)])),
            2 if !self.m.orders.is_empty() => self.calls.push(call(o, "modify_order", vec![json!(id), out_of_range(self.r, true), Value::Null])),
            3 if !self.m.orders.is_empty() => self.calls.push(call(o, "modify_order", vec![json!(id), Value::Null, out_of_range(self.r, true)])),
            4 => self.calls.push(call(o, "order_status", vec![out_of_range(self.r, false)])),
            5 => self.calls.push(call(o, "set_time", vec![out_of_range(self.r, false)])),
            _ => {}
        }
    }
    fn modify_args(&mut self, id: usize) -> (Option<u32>, Option<u32>) {
        let cur = self.m.orders[id].o;
        let price = match self.r.below(10) {
            0..=4 => None,
            5 => Some(cur.price).filter(|p| *p != 0 && *p != PMAX),
            _ => {
                let passive = self.r.chance(0.5);
                Some(self.price(cur.bid, passive))
            }
        };
        // ... and so is a re-price of a buy order to 0
        let price = if cur.bid && self.r.chance(0.05) { Some(0) } else { price };
        let vol = match self.r.below(6) {
            0 | 1 => None,
            2 | 3 => Some(if cur.vol > 1 { self.r.range(1, cur.vol as u64 - 1) as u32 } else { 1 }),
            4 => Some(cur.vol.max(1)),
            _ => Some(cur.vol + self.r.range(1, 5) as u32),
        };
        (price, vol)
    }
}

/// A book with tens of thousands of resting orders (one bulk request), saved by Python, loaded by Rust (the executor does
/// that after every save) and by Python, then driven on: the snapshot is 4 .. 9 MiB long.
fn big_snapshot_script(r: &mut SimRng) -> Vec<PyCall> {
    let tick = r.range(1, 10) as u32;
    let centre = r.range(100, 100_000) as u32;
    let n = r.range(22_000, 34_000);
    let pretty = r.chance(0.5);
    let mut calls = vec![PyCall { k: "new_book".into(), o: "b".into(), m: String::new(), a: vec![json!(5), json!(tick), json!(true)] }];
    calls.push(PyCall { k: "bulk".into(), o: "b".into(), m: "bulk_place".into(), a: vec![json!(n), json!(tick), json!(centre)] });
    calls.push(call("b", "get_trades", vec![]));
    calls.push(call("b", "save_json_snapshot", vec![json!("@snap_big.json"), json!(pretty)]));
    // Rust -> Python: the mirror writes its own snapshot of the big book, Python loads it into a second object
    calls.push(PyCall { k: "load_book".into(), o: "c".into(), m: "b".into(), a: vec![json!("@snap_big_rs.json"), json!(!pretty)] });
    // a few operations on both objects
    for o in ["b", "c"] {
        calls.push(call(o, "set_time", vec![json!(9)]));
        calls.push(call(o, "place_order", vec![json!(true), json!(500), json!(3), Value::Null]));
        calls.push(call(o, "place_order", vec![json!(false), json!(700), json!(4), json!((centre - 3) * tick)]));
        calls.push(call(o, "cancel_order", vec![json!(n / 2)]));
        calls.push(call(o, "get_trades", vec![]));
    }
    calls
}

fn book_script(r: &mut SimRng) -> Vec<PyCall> {
    let tick = r.range(1, 10) as u32;
    let centre = r.range(20, 100_000) as u32;
    let t0 = *r.pick(&[0u64, 5, 1 << 40, (1 << 62) + 17]);
    let trading = !r.chance(0.15);
    let mut g = G { r, m: Model::new(t0, tick, trading, Tie::Fifo), tick, centre, calls: vec![], snaps: 0, whale: [0, 0], depth: 5 };
    let o = "b";
    if g.r.chance(0.15) {
        // constructor with an out-of-range integer first: must raise and create nothing
        let a = match g.r.below(2) {
            0 => vec![out_of_range(g.r, false), json!(tick), json!(trading)],
            _ => vec![json!(t0), out_of_range(g.r, true), json!(trading)],
        };
        g.calls.push(PyCall { k: "new_book".into(), o: o.into(), m: String::new(), a });
    }
    g.calls.push(PyCall { k: "new_book".into(), o: o.into(), m: String::new(), a: vec![json!(t0), json!(tick), json!(trading)] });
    if trading && g.r.chance(0.05) {
        // whale prologue: three bids of 2^30 behind one ask of 2^30, then the first bid is raised to 2^31 and re-priced
        // through the ask: 2^30 executes at once, 2^30 rests - every side total stays below 2^32 (3 * 2^30), although
        // (side total - old volume + new volume) alone would reach 2^32
        let w: u32 = 1 << 30;
        let (pb, pa) = ((centre - 2) * tick, (centre + 2) * tick);
        let mut t = g.m.t;
        let mut place = |g: &mut G, bid: bool, price: u32, t: &mut u64| {
            *t += 1;
            g.m.set_time(*t);
            g.calls.push(call(o, "set_time", vec![json!(*t)]));
            if let Ok(id) = g.m.create(bid, w, 7, Some(price)) {
                g.m.place(id);
            }
            g.calls.push(call(o, "place_order", vec![json!(bid), json!(w), json!(7), json!(price)]));
        };
        place(&mut g, false, pa, &mut t);
        let first_bid = g.m.orders.len();
        place(&mut g, true, pb, &mut t);
        place(&mut g, true, pb, &mut t);
        place(&mut g, true, pb, &mut t);
        t += 1;
        g.m.set_time(t);
        g.calls.push(call(o, "set_time", vec![json!(t)]));
        g.m.modify(first_bid, Some(pa), Some(w * 2));
        g.calls.push(call(o, "modify_order", vec![json!(first_bid), json!(pa), json!(w * 2)]));
        g.calls.push(call(o, "get_orders", vec![]));
        g.calls.push(call(o, "bid_vol", vec![]));
    }
    let n = if g.r.chance(0.8) { g.r.range(5, 40) } else { g.r.range(41, 120) } as usize;
    let mut trading_now = trading;
    while g.calls.len() < n {
        // clock discipline: advance the clock before most queue insertions
        if g.r.chance(0.8) {
            let dt = *g.r.pick(&[1u64, 1, 2, 10, 1000]);
            let t = g.m.t + dt;
            if t < (1u64 << 63) {
                g.m.set_time(t);
                g.calls.push(call(o, "set_time", vec![json!(t)]));
            }
        }
        match g.r.weighted(&[40, 10, 12, 6, 5, 6, 6, 4, 4]) {
            0 => {
                let (bid, vol, trader, price) = g.new_order();
                // skip placements that would tie with a resting order (ties are C05's subject)
                if let Some(p) = price {
                    if g.m.has_resting_at(bid, p, g.m.t, None) {
                        continue;
                    }
                }
                if let Ok(id) = g.m.create(bid, vol, trader, price) {
                    g.m.place(id);
                }
                g.calls.push(call(o, "place_order", vec![json!(bid), json!(vol), json!(trader), opt(price)]));
            }
            1 => {
                if let Some(id) = g.pick(ACTIVE).or_else(|| g.any()) {
                    g.m.cancel(id);
                    g.calls.push(call(o, "cancel_order", vec![json!(id)]));
                }
            }
            2 => {
                if let Some(id) = g.pick(ACTIVE).or_else(|| g.any()) {
                    let (p, v) = g.modify_args(id);
                    let cur = g.m.orders[id].o;
                    if cur.status == ACTIVE && g.m.has_resting_at(cur.bid, p.unwrap_or(cur.price), g.m.t, Some(id)) {
                        continue;
                    }
                    g.m.modify(id, p, v);
                    g.calls.push(call(o, "modify_order", vec![json!(id), opt(p), opt(v)]));
                }
            }
            3 => g.faulty_place(o),
            4 => g.faulty_other(o, true),
            5 => {
                trading_now = !trading_now;
                if trading_now {
                    g.m.enable_trading()
                } else {
                    g.m.disable_trading()
                }
                g.calls.push(call(o, if trading_now { "enable_trading" } else { "disable_trading" }, vec![]));
            }
            6 => {
                let m = *g.r.pick(&["ask_vol", "best_ask_vol", "best_ask_vol_and_orders", "bid_vol", "best_bid_vol", "best_bid_vol_and_orders", "bid_ask", "get_orders", "get_trades"]);
                g.calls.push(call(o, m, vec![]));
                if let Some(id) = g.any() {
                    g.calls.push(call(o, "order_status", vec![json!(id)]));
                }
            }
            7 => {
                // Python writes, Rust loads (and the Rust side drives on with the loaded object). Two path names are shared by
                // both directions and re-used within a run (files are removed only at the end of the run): a checkpoint
                // written over an older one must hold the current book.
                g.snaps += 1;
                let pretty = g.r.chance(0.5);
                let name = format!("@snap_{}.json", 1 + g.r.below(2));
                g.calls.push(call(o, "save_json_snapshot", vec![json!(name.clone()), json!(pretty)]));
                if g.r.chance(0.4) {
                    // checkpoint again after nothing but clock / trading-switch changes (no order activity in between)
                    for _ in 0..g.r.range(1, 2) {
                        if g.r.chance(0.5) {
                            let t = g.m.t + *g.r.pick(&[1u64, 4, 1000]);
                            if t < (1u64 << 63) {
                                g.m.set_time(t);
                                g.calls.push(call(o, "set_time", vec![json!(t)]));
                            }
                        } else {
                            trading_now = !trading_now;
                            if trading_now {
                                g.m.enable_trading()
                            } else {
                                g.m.disable_trading()
                            }
                            g.calls.push(call(o, if trading_now { "enable_trading" } else { "disable_trading" }, vec![]));
                        }
                    }
                    g.snaps += 1;
                    let pretty2 = if g.r.chance(0.7) { pretty } else { !pretty };
                    g.calls.push(call(o, "save_json_snapshot", vec![json!(name), json!(pretty2)]));
                    // the continuation reveals the restored trading flag and clock: a crossing order and a market order
                    let (bid, vol, trader, _) = g.new_order();
                    if let Ok(id) = g.m.create(bid, vol, trader, None) {
                        g.m.place(id);
                    }
                    g.calls.push(call(o, "place_order", vec![json!(bid), json!(vol), json!(trader), Value::Null]));
                }
            }
            _ => {
                // Rust writes, Python loads and drives on with the loaded object
                g.snaps += 1;
                let pretty = g.r.chance(0.5);
                let name = format!("@snap_{}.json", 1 + g.r.below(2));
                g.calls.push(PyCall { k: "load_book".into(), o: o.into(), m: o.into(), a: vec![json!(name), json!(pretty)] });
            }
        }
    }
    // final segment (the clock cannot come back afterwards): the top of the clock's range - 2^63, 2^64-2, 2^64-1 are
    // in-range values of the unsigned 64-bit clock - followed by placements that rest, trade and get recorded at that time
    if g.r.chance(0.12) {
        let t = *g.r.pick(&[1u64 << 63, u64::MAX - 1, u64::MAX, u64::MAX]);
        if t > g.m.t {
            g.m.set_time(t);
            g.calls.push(call(o, "set_time", vec![json!(t)]));
            for _ in 0..g.r.range(2, 5) {
                let (bid, vol, trader, price) = g.new_order();
                if let Some(p) = price {
                    if g.m.has_resting_at(bid, p, g.m.t, None) {
                        continue;
                    }
                }
                if let Ok(id) = g.m.create(bid, vol, trader, price) {
                    g.m.place(id);
                }
                g.calls.push(call(o, "place_order", vec![json!(bid), json!(vol), json!(trader), opt(price)]));
            }
            g.calls.push(call(o, "get_orders", vec![]));
            g.calls.push(call(o, "get_trades", vec![]));
            if g.r.chance(0.5) {
                g.snaps += 1;
                g.calls.push(call(o, "save_json_snapshot", vec![json!("@snap_1.json"), json!(false)]));
            }
        }
    }
    g.calls
}

fn env_script(r: &mut SimRng) -> Vec<PyCall> {
    let tick = r.range(1, 10) as u32;
    let centre = r.range(20, 100_000) as u32;
    // (clock values and step sizes beyond 2^53 - not representable in a double - are ordinary u64 arguments)
    let t0 = *r.pick(&[0u64, 5, 1 << 40, (1 << 53) + 1, 1_700_000_000_123_456_789, (1 << 62) + 17]);
    let seed = r.next();
    let step = *r.pick(&[100u64, 1000, 1_000_000, 1_000_000, (1 << 53) + 1]);
    let trading = !r.chance(0.1);
    let mut g = G { r, m: Model::new(t0, tick, trading, Tie::Fifo), tick, centre, calls: vec![], snaps: 0, whale: [0, 0], depth: 5 };
    let o = "e";
    if g.r.chance(0.15) {
        let a = match g.r.below(4) {
            0 => vec![out_of_range(g.r, false), json!(t0), json!(tick), json!(step), json!(trading)],
            1 => vec![json!(seed), out_of_range(g.r, false), json!(tick), json!(step), json!(trading)],
            2 => vec![json!(seed), json!(t0), out_of_range(g.r, true), json!(step), json!(trading)],
            _ => vec![json!(seed), json!(t0), json!(tick), out_of_range(g.r, false), json!(trading)],
        };
        g.calls.push(PyCall { k: "new_env".into(), o: o.into(), m: String::new(), a });
    }
    g.calls.push(PyCall { k: "new_env".into(), o: o.into(), m: String::new(), a: vec![json!(seed), json!(t0), json!(tick), json!(step), json!(trading)] });
    let mut gen_rng = SeamRng::passthrough(seed);
    let steps = if step > 1 << 50 { g.r.range(1, 4) } else { g.r.range(1, 12) };
    let mut trading_now = trading;
    // pending instructions for the generator's own book-keeping: (kind, id, p, v); kind 0 new 1 cancel 2 modify
    for _ in 0..steps {
        let mut pending: Vec<(u8, usize, Option<u32>, Option<u32>)> = vec![];
        let nb = g.r.range(0, 8);
        for _ in 0..nb {
            match g.r.weighted(&[50, 12, 12, 8, 6, 6, 6]) {
                0 => {
                    let (bid, vol, trader, price) = g.new_order();
                    if let Ok(id) = g.m.create(bid, vol, trader, price) {
                        pending.push((0, id, None, None));
                    }
                    g.calls.push(call(o, "place_order", vec![json!(bid), json!(vol), json!(trader), opt(price)]));
                }
                1 => {
                    if let Some(id) = g.pick(ACTIVE).or_else(|| g.any()) {
                        pending.push((1, id, None, None));
                        g.calls.push(call(o, "cancel_order", vec![json!(id)]));
                    }
                }
                2 => {
                    if let Some(id) = g.pick(ACTIVE).or_else(|| g.any()) {
                        let (p, v) = g.modify_args(id);
                        pending.push((2, id, p, v));
                        g.calls.push(call(o, "modify_order", vec![json!(id), opt(p), opt(v)]));
                    }
                }
                3 => g.faulty_place(o),
                4 => g.faulty_other(o, false),
                5 => {
                    let m = *g.r.pick(&["time", "ask_vol", "best_ask_vol", "best_ask_vol_and_orders", "bid_vol", "best_bid_vol", "best_bid_vol_and_orders", "trade_vol", "bid_ask"]);
                    g.calls.push(prop(o, m));
                }
                _ => {
                    let m = *g.r.pick(&["get_orders", "get_trades", "get_prices", "get_volumes", "get_touch_volumes", "get_touch_order_counts", "get_trade_volumes"]);
                    g.calls.push(call(o, m, vec![]));
                    if let Some(id) = g.any() {
                        g.calls.push(call(o, "order_status", vec![json!(id)]));
                    }
                }
            }
        }
        if g.r.chance(0.1) {
            trading_now = !trading_now;
            if trading_now {
                g.m.enable_trading()
            } else {
                g.m.disable_trading()
            }
            g.calls.push(call(o, if trading_now { "enable_trading" } else { "disable_trading" }, vec![]));
        }
        g.calls.push(call(o, "step", vec![]));
        // mirror the shuffle for the generator's own view of the book (workload quality only)
        let mut idx: Vec<usize> = (0..pending.len()).collect();
        idx.shuffle(&mut gen_rng);
        let start = g.m.t;
        g.m.reset_trade_vol();
        for (i, k) in idx.iter().enumerate() {
            g.m.set_time(start + i as u64);
            let (kind, id, p, v) = pending[*k];
            match kind {
                0 => g.m.place(id),
                1 => g.m.cancel(id),
                _ => g.m.modify(id, p, v),
            }
        }
        g.m.set_time(start + step);
    }
    g.calls
}

fn layout_script(r: &mut SimRng) -> Vec<PyCall> {
    let tick = r.range(1, 10) as u32;
    // (a sixth of the layouts hug an end of the price range: touch within a few ticks of the lowest / highest grid price)
    let centre = match r.below(12) {
        0 => r.range(2, 12) as u32,
        1 => (PMAX - 1) / tick - r.range(1, 12) as u32,
        _ => r.range(30, 100_000) as u32,
    };
    let seed = r.next();
    // (small step sizes make steps oversized: more instructions than time units)
    let step = *r.pick(&[1000u64, 1000, 1000, 1000, 3, 1]);
    let mut g = G { r, m: Model::new(0, tick, true, Tie::Fifo), tick, centre, calls: vec![], snaps: 0, whale: [0, 0], depth: 13 };
    let ctor = vec![json!(seed), json!(0), json!(tick), json!(step), json!(true)];
    g.calls.push(PyCall { k: "new_env".into(), o: "e".into(), m: String::new(), a: ctor.clone() });
    g.calls.push(PyCall { k: "new_numpy".into(), o: "n".into(), m: String::new(), a: ctor });
    if g.r.chance(0.08) {
        // clearing prologue: one order rests, the next step's order of exactly the same volume trades it away - the book
        // is completely empty while the last step's traded volume is not 0
        let bid_first = g.r.chance(0.5);
        let v = g.r.range(1, 40) as u32;
        let price = centre * tick;
        for (k, bid) in [bid_first, !bid_first].into_iter().enumerate() {
            let _ = g.m.create(bid, v, 3, Some(price));
            g.calls.push(call("e", "place_order", vec![json!(bid), json!(v), json!(3), json!(price)]));
            g.calls.push(PyCall { k: "np_limit_orders".into(), o: "n".into(), m: String::new(), a: vec![json!(vec![bid]), json!(vec![v]), json!(vec![3u32]), json!(vec![price])] });
            g.calls.push(call("e", "step", vec![]));
            g.calls.push(call("n", "step", vec![]));
            if k == 1 || g.r.chance(0.5) {
                for m in ["level_1_data_array", "level_2_data_array", "get_market_data"] {
                    g.calls.push(call("e", m, vec![]));
                }
                for m in ["level_1_data", "level_2_data", "get_market_data"] {
                    g.calls.push(call("n", m, vec![]));
                }
            }
        }
    }
    if g.r.chance(0.06) {
        // domain-end prologue: the only buy order rests at price 0 and / or the only sell order at 2^32-1 (where the grid
        // contains it): the touch price then equals the value that stands for "no orders on this side", while the side's
        // volumes, counts and level 0 are not empty
        let mut ends: Vec<(bool, u32)> = vec![];
        if g.r.chance(0.7) {
            ends.push((true, 0));
        }
        if PMAX % tick == 0 && (ends.is_empty() || g.r.chance(0.5)) {
            ends.push((false, PMAX));
        }
        if ends.is_empty() {
            ends.push((true, 0));
        }
        for (bid, price) in ends {
            let v = g.vol(bid);
            let _ = g.m.create(bid, v, 4, Some(price));
            g.calls.push(call("e", "place_order", vec![json!(bid), json!(v), json!(4), json!(price)]));
            g.calls.push(PyCall { k: "np_limit_orders".into(), o: "n".into(), m: String::new(), a: vec![json!(vec![bid]), json!(vec![v]), json!(vec![4u32]), json!(vec![price])] });
        }
        g.calls.push(call("e", "step", vec![]));
        g.calls.push(call("n", "step", vec![]));
        for m in ["level_1_data_array", "level_2_data_array", "get_market_data"] {
            g.calls.push(call("e", m, vec![]));
        }
        for m in ["level_1_data", "level_2_data", "get_market_data"] {
            g.calls.push(call("n", m, vec![]));
        }
    }
    if g.r.chance(0.1) {
        // whale layouts: a few orders of 2^30 / 2^31 (recorded per-level series whose sums pass 2^32 within a few steps)
        g.whale = [3, 3];
    }
    let steps = g.r.range(1, 8);
    for st in 0..steps {
        // idle steps: nothing submitted at all (the book, and with it every level, stays as it is; the step's traded
        // volume must read 0)
        if st > 0 && g.r.chance(if g.whale != [0, 0] || g.m.orders.iter().any(|o| o.o.vol >= 1 << 30) { 0.45 } else { 0.15 }) {
            g.calls.push(call("e", "step", vec![]));
            g.calls.push(call("n", "step", vec![]));
            for m in ["level_1_data_array", "level_2_data_array", "get_market_data"] {
                g.calls.push(call("e", m, vec![]));
            }
            for m in ["level_1_data", "level_2_data", "get_market_data"] {
                g.calls.push(call("n", m, vec![]));
            }
            continue;
        }
        // some steps carry nothing but modifications of resting orders (StepEnv only: the numpy API has no modify)
        let n_so_far = g.m.orders.len();
        if st > 0 && n_so_far > 0 && g.r.chance(0.3) {
            for _ in 0..g.r.range(1, 3) {
                let id = g.r.usize(n_so_far);
                let cur = g.m.orders[id].o;
                let (p, v) = match g.r.below(3) {
                    0 => (None, Some(1u32.max(cur.start_vol / 2))),
                    1 => (Some(g.price(cur.bid, true)), None),
                    _ => (Some(g.price(cur.bid, true)), Some(cur.start_vol + 1)),
                };
                g.calls.push(call("e", "modify_order", vec![json!(id), opt(p), opt(v)]));
            }
            g.calls.push(call("e", "step", vec![]));
            g.calls.push(call("n", "step", vec![]));
            for m in ["level_1_data_array", "level_2_data_array", "get_market_data"] {
                g.calls.push(call("e", m, vec![]));
            }
            for m in ["level_1_data", "level_2_data", "get_market_data"] {
                g.calls.push(call("n", m, vec![]));
            }
            continue;
        }
        let nb = g.r.range(1, 10) as usize;
        let mut sides = vec![];
        let mut vols = vec![];
        let mut traders = vec![];
        let mut prices = vec![];
        for _ in 0..nb {
            let bid = g.r.chance(0.5);
            let vol = g.vol(bid);
            let trader = g.r.below(20) as u32;
            // mostly passive at several levels so that levels beyond the touch are populated; some crossing
            let price = if g.r.chance(0.85) { g.price(bid, true) } else { g.price(bid, false) };
            if let Ok(id) = g.m.create(bid, vol, trader, Some(price)) {
                let _ = id;
            }
            sides.push(bid);
            vols.push(vol);
            traders.push(trader);
            prices.push(price);
            g.calls.push(call("e", "place_order", vec![json!(bid), json!(vol), json!(trader), json!(price)]));
        }
        // the same batch through the numpy API (either entry point)
        if g.r.chance(0.5) {
            g.calls.push(PyCall { k: "np_limit_orders".into(), o: "n".into(), m: String::new(), a: vec![json!(sides), json!(vols), json!(traders), json!(prices)] });
        } else {
            let acts: Vec<u32> = vec![1; nb];
            let oids: Vec<u64> = vec![0; nb];
            g.calls.push(PyCall { k: "np_instructions".into(), o: "n".into(), m: String::new(), a: vec![json!(acts), json!(sides), json!(vols), json!(traders), json!(prices), json!(oids)] });
        }
        // a late observer: the arrays are read after the submissions and before the step (they must still describe the book
        // as of the previous step), and again after it
        if g.r.chance(0.2) {
            for m in ["level_1_data_array", "level_2_data_array"] {
                g.calls.push(call("e", m, vec![]));
            }
            for m in ["level_1_data", "level_2_data"] {
                g.calls.push(call("n", m, vec![]));
            }
        }
        // cancel an old order in both (ids are the same on both sides: same submission sequence)
        let n_before = g.m.orders.len() - nb;
        if n_before > 0 && g.r.chance(0.5) {
            let id = g.r.usize(n_before);
            g.calls.push(call("e", "cancel_order", vec![json!(id)]));
            g.calls.push(PyCall { k: "np_cancellations".into(), o: "n".into(), m: String::new(), a: vec![json!(vec![id])] });
        }
        g.calls.push(call("e", "step", vec![]));
        g.calls.push(call("n", "step", vec![]));
        for m in ["level_1_data_array", "level_2_data_array", "get_market_data"] {
            g.calls.push(call("e", m, vec![]));
        }
        for m in ["level_1_data", "level_2_data", "get_market_data"] {
            g.calls.push(call("n", m, vec![]));
        }
        // a trading halt and a resume between two steps change nothing the arrays speak about (element 0 is still the volume
        // traded in the last step): read them while halted and again after the resume
        if g.r.chance(0.12) {
            for sw in ["disable_trading", "enable_trading"] {
                g.calls.push(call("e", sw, vec![]));
                g.calls.push(call("n", sw, vec![]));
                for m in ["level_1_data_array", "level_2_data_array"] {
                    g.calls.push(call("e", m, vec![]));
                }
                for m in ["level_1_data", "level_2_data"] {
                    g.calls.push(call("n", m, vec![]));
                }
            }
        }
        if g.r.chance(0.5) {
            g.calls.push(PyCall { k: "df_orders".into(), o: "e".into(), m: String::new(), a: vec![] });
            g.calls.push(PyCall { k: "df_trades".into(), o: "e".into(), m: String::new(), a: vec![] });
        }
    }
    g.calls
}

pub fn generate(prop: &str, seed: u64) -> W5Scn {
    let mut r = SimRng::new(seed ^ 0x5555);
    let calls = if prop == "C19" {
        layout_script(&mut r)
    } else if r.chance(0.0006) {
        big_snapshot_script(&mut r)
    } else if r.chance(0.55) {
        book_script(&mut r)
    } else {
        env_script(&mut r)
    };
    W5Scn { property: prop.to_string(), calls, second_hashseed: r.chance(0.1) }
}
