//! W1 / W2: operations, configuration and scenario of the direct (book / market level) world.
use crate::api::EvKind;
use crate::model::Tie;
use serde::{Deserialize, Serialize};

#[derive(Clone, Debug, Serialize, Deserialize, PartialEq)]
pub enum Op {
    /// set_time(t + dt)
    Tick { dt: u64 },
    /// set_time(2^64 - 1 - back): the clock jumps to the top of its domain (the last representable instants)
    TickTop { back: u8 },
    Create { a: usize, bid: bool, vol: u32, trader: u32, price: Option<u32> },
    Place { a: usize, ord: usize },
    CreatePlace { a: usize, bid: bool, vol: u32, trader: u32, price: Option<u32> },
    Cancel { a: usize, ord: usize },
    Modify { a: usize, ord: usize, price: Option<u32>, vol: Option<u32> },
    Event { a: usize, kind: EvKind, ord: usize, price: Option<u32>, vol: Option<u32> },
    Trading { on: bool },
    /// the trading switch of ONE asset's book, reached through `Market::get_order_book_mut` (a plain book: same as Trading)
    TradingAsset { a: usize, on: bool },
    ResetTradeVol,
    /// how: 0 to_string, 1 to_string_pretty, 2 save_json compact, 3 save_json pretty
    Snapshot { how: u8, into_levels: usize, keep: bool, truncate: bool },
    /// final probe: enable trading, then a market order for the whole opposite volume on each side
    Drain,
}

pub mod mon {
    pub const MODEL: u32 = 1 << 0;
    pub const RECOMPUTE: u32 = 1 << 1;
    pub const LEDGER: u32 = 1 << 2;
    pub const LIFECYCLE: u32 = 1 << 3;
    pub const NOOP: u32 = 1 << 4;
    pub const MODIFY_INV: u32 = 1 << 5;
    pub const GRID: u32 = 1 << 6;
    pub const HALT: u32 = 1 << 7;
    pub const TWIN: u32 = 1 << 8;
    pub const SHADOW: u32 = 1 << 9;
    pub const MID: u32 = 1 << 10;
    pub const TIE_CLASSIFY: u32 = 1 << 11;
}

#[derive(Clone, Debug, Serialize, Deserialize, PartialEq)]
pub struct W1Cfg {
    pub property: String,
    pub market: bool,
    pub assets: usize,
    pub levels: usize,
    pub ticks: Vec<u32>,
    pub t0: u64,
    pub trading0: bool,
    /// clock discipline: operations that would queue an order under an existing (side, price, time) are invalid
    pub discipline: bool,
    /// off-grid creation requests are part of the workload (C12)
    pub allow_offgrid_create: bool,
    /// an off-grid re-price may appear; the run stops right after it (C12)
    pub allow_offgrid_modify: bool,
    pub monitors: u32,
    pub tie: Tie,
}

#[derive(Clone, Debug, Serialize, Deserialize, PartialEq)]
pub struct W1Scn {
    pub cfg: W1Cfg,
    pub ops: Vec<Op>,
}
