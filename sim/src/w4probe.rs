//! C20: derived agent sets versus the hand-written call sequence, call by call and draw by draw.
use crate::core::*;
use crate::probe::*;
use crate::rng::{SeamRng, SimRng};
use rand::RngCore;
use serde::{Deserialize, Serialize};

#[derive(Clone, Debug, Serialize, Deserialize, PartialEq)]
pub struct ShapeScn {
    pub property: String,
    pub market: bool,
    pub shape: usize,
    /// which (A, L) instantiation of the multi-asset environment: 0 = <1,10>, 1 = <2,3>, 2 = <3,1>
    pub inst: usize,
    pub seed: u64,
    pub calls: usize,
    /// member of the generator family the shared generator is (0 = Xoroshiro128**)
    #[serde(default)]
    pub gen_kind: usize,
    /// ordinal (over the whole run) of the member update that fails; the caller catches it and calls the set again
    #[serde(default)]
    pub panic_at: Option<usize>,
}

pub fn generate(prop: &str, seed: u64, run_hint: u64) -> ShapeScn {
    let mut r = SimRng::new(seed ^ 0xC20);
    let n_env = crate::shapes_gen::catalogue_env().len().max(1) as u64;
    let n_mkt = crate::shapes_gen::catalogue_mkt().len().max(1) as u64;
    // cycle through the catalogue so that every shape and instantiation is visited, seeds and call counts are random
    let k = run_hint % (n_env + 3 * n_mkt);
    let (market, shape, inst) = if k < n_env { (false, k as usize, 0) } else { (true, ((k - n_env) / 3) as usize, ((k - n_env) % 3) as usize) };
    let seed2 = r.next();
    let mut calls = r.range(1, 4) as usize;
    let gen_kind = if r.chance(0.5) { r.usize(crate::rng::GEN_NAMES.len()) } else { 0 };
    let leaves = if market { crate::shapes_gen::catalogue_mkt().get(shape).map(|e| e.expect.len()) } else { crate::shapes_gen::catalogue_env().get(shape).map(|e| e.expect.len()) }.unwrap_or(1).max(1);
    let panic_at = if r.chance(0.3) {
        // the failing member is never in the last call: the call after it shows whether every member is updated again
        calls = calls.max(2);
        Some(r.usize(leaves * (calls - 1)))
    } else {
        None
    };
    ShapeScn { property: prop.to_string(), market, shape, inst, seed: seed2, calls, gen_kind, panic_at }
}

pub fn execute(s: &ShapeScn) -> RunOutcome {
    let mut stats = RunStats::default();
    let cat = if s.market { crate::shapes_gen::catalogue_mkt() } else { crate::shapes_gen::catalogue_env() };
    let mk = |class: &str, i: usize, field: &str, exp: String, act: String| Violation::new(&s.property, class, i, field, exp, act);
    let e = match cat.get(s.shape) {
        Some(e) => e,
        None => {
            return RunOutcome { violation: None, stats };
        }
    };
    plan_set(s.gen_kind, s.panic_at);
    crate::rng::trace_start();
    let derived = match guard(|| (e.run[s.inst.min(2)])(true, s.seed, s.calls)) {
        Ok(l) => l,
        Err(m) => return RunOutcome { violation: Some(mk("panic", 0, "derived update", "no abort".into(), m)), stats },
    };
    let trace_derived = crate::rng::trace_take();
    plan_set(s.gen_kind, s.panic_at);
    crate::rng::trace_start();
    let manual = match guard(|| (e.run[s.inst.min(2)])(false, s.seed, s.calls)) {
        Ok(l) => l,
        Err(m) => return RunOutcome { violation: Some(mk("panic", 0, "hand-written sequence", "no abort".into(), m)), stats },
    };
    let trace_manual = crate::rng::trace_take();
    plan_set(0, None);
    // the sequence implied by the declaration order, with the draws of one continuous generator stream (each member
    // update through the RngCore method its ordinal prescribes) and one shared environment (one more order per update);
    // a failing member ends its call of the set, the next call starts with the first member again
    let mut rng = SeamRng::passthrough_kind(s.seed, s.gen_kind);
    let mut expected: Vec<Rec> = vec![];
    let mut ordinal = 0usize;
    for _ in 0..s.calls {
        for (tag, ty) in e.expect {
            let k = ordinal;
            ordinal += 1;
            if s.panic_at == Some(k) {
                stats.fault("member_failed_mid_update");
                break;
            }
            let draw = draw_with(&mut rng, draw_mode(*tag, k));
            expected.push(Rec { tag: *tag, ty: *ty, draw, orders: expected.len() });
        }
    }
    if s.gen_kind != 0 {
        stats.probe("generator_other_family_member");
    }
    let mut viol = None;
    let cmp = |what: &str, got: &[Rec]| -> Option<Violation> {
        if got.len() != expected.len() {
            return Some(mk("agentset-order", got.len().min(expected.len()), &format!("{} ({}).calls", e.name, what), format!("{} member updates", expected.len()), got.len().to_string()));
        }
        for (i, (g, x)) in got.iter().zip(expected.iter()).enumerate() {
            if g != x {
                return Some(
                    mk("agentset-order", i, &format!("{} ({}).update[{}]", e.name, what, i), format!("{:?}", x), format!("{:?}", g))
                        .detail("tag/ty = which field was updated, draw = next value of the shared generator, orders = orders already in the shared environment".into()),
                );
            }
        }
        None
    };
    if let Some(v) = cmp("hand-written sequence", &manual) {
        let mut v = v;
        v.class = "harness-inconsistent".into();
        viol = Some(v);
    } else if let Some(v) = cmp("derived", &derived) {
        viol = Some(v);
    } else if derived != manual {
        viol = Some(mk("agentset-order", 0, e.name, "derived == hand-written".into(), "differ".into()));
    } else if trace_derived != trace_manual {
        let i = trace_derived.iter().zip(trace_manual.iter()).position(|(a, b)| a != b).unwrap_or(trace_derived.len().min(trace_manual.len()));
        viol = Some(
            mk("agentset-generator", i, &format!("{}.generator call[{}]", e.name, i), format!("{:?}", trace_manual.get(i)), format!("{:?}", trace_derived.get(i)))
                .detail("(RngCore method: 64 = next_u64, 32 = next_u32, 0 = fill_bytes; value): the members of the derived set reach the shared generator through other calls than the hand-written sequence does - they are not handed the same generator".into()),
        );
    }
    stats.probe_n("generator_calls_compared", trace_manual.len() as u64);
    stats.ops = expected.len() as u64;
    stats.probe_n("member_updates_compared", expected.len() as u64);
    if e.nested {
        stats.probe("nested_set_shape");
    }
    if e.repeated_types {
        stats.probe("repeated_type_shape");
    }
    if s.market {
        stats.probe("market_agent_set");
    } else {
        stats.probe("agent_set");
    }
    match e.fields {
        1 => stats.probe("shape_1_field"),
        8 => stats.probe("shape_8_fields"),
        _ => {}
    }
    let mut h = crate::obs::Fnv::new();
    h.u64(s.market as u64);
    h.u64(s.shape as u64);
    h.u64(s.inst as u64);
    h.u64(s.calls as u64);
    stats.end_digest = h.0;
    stats.set("shapes", h.0);
    RunOutcome { violation: viol, stats }
}

/// batch-level report for the evidence file: which catalogue was compiled in
pub fn finalize(_tables: &std::collections::BTreeMap<String, Vec<u64>>, _prop: &str) -> (Option<Violation>, serde_json::Value) {
    let env = crate::shapes_gen::catalogue_env();
    let mkt = crate::shapes_gen::catalogue_mkt();
    let summary = |c: &[ShapeEntry]| {
        serde_json::json!({
            "shapes": c.len(),
            "nested": c.iter().filter(|e| e.nested).count(),
            "with_repeated_types": c.iter().filter(|e| e.repeated_types).count(),
            "fields_histogram": (1..=8).map(|k| c.iter().filter(|e| e.fields == k).count()).collect::<Vec<_>>(),
            "max_leaves": c.iter().map(|e| e.leaves).max().unwrap_or(0),
        })
    };
    (None, serde_json::json!({"catalogue_seed": crate::shapes_gen::CATALOGUE_SEED, "per_macro": crate::shapes_gen::CATALOGUE_COUNT_PER_MACRO, "AgentSet": summary(&env), "MarketAgentSet": summary(&mkt)}))
}
