//! W4: full simulations of the built-in agents (random / noise / momentum, single- and multi-asset),
//! combined through the derive macros, run through the shipped runners and through the equivalent
//! manual loop in which the harness's `SeamRng` is the generator (C09, C16, C17).
use crate::api::*;
use crate::core::*;
use crate::obs::*;
use crate::rng::SeamRng;
use bourse_book::types::{Event, Side};
use bourse_de::agents::{
    Agent, AgentSet, MarketAgent, MarketAgentSet, MomentumAgent, MomentumMarketAgent, MomentumParams, NoiseAgent, NoiseAgentParams, NoiseMarketAgent, RandomAgents,
    RandomMarketAgents,
};
use bourse_de::{market_sim_runner, sim_runner, Env, MarketEnv};
use rand::RngCore;
use serde::{Deserialize, Serialize};

#[derive(Clone, Debug, Serialize, Deserialize, PartialEq)]
pub enum AgentSpec {
    Random { asset: usize, n: usize, tick_lo: u32, tick_hi: u32, vol_lo: u32, vol_hi: u32, activity: f32 },
    Noise { asset: usize, id_start: u32, n: u16, p_limit: f32, p_market: f32, p_cancel: f32, trade_vol: u32, mu: f64, sigma: f64 },
    Momentum { asset: usize, id_start: u32, n: u16, p_cancel: f32, trade_vol: u32, decay: f64, demand: f64, scale: f64, order_ratio: f64, mu: f64, sigma: f64 },
}

impl AgentSpec {
    pub fn asset(&self) -> usize {
        match self {
            AgentSpec::Random { asset, .. } | AgentSpec::Noise { asset, .. } | AgentSpec::Momentum { asset, .. } => *asset,
        }
    }
}

/// how the separate OS process of C09 is perturbed
#[derive(Clone, Debug, Serialize, Deserialize, PartialEq, Default)]
pub struct ChildFlags {
    pub progress: bool,
    pub junk_allocs: usize,
    pub thread: bool,
    /// 0 null, 1 pipe, 2 file
    pub stderr: u8,
    pub other_cwd: bool,
    pub other_env: bool,
}

#[derive(Clone, Debug, Serialize, Deserialize, PartialEq)]
pub struct W4Cfg {
    pub property: String,
    pub market: bool,
    pub assets: usize,
    pub ticks: Vec<u32>,
    pub t0: u64,
    pub step_size: u64,
    pub trading0: bool,
    pub seed: u64,
    pub n_steps: u64,
    /// compare against a separate OS process (C09)
    pub child: Option<ChildFlags>,
    /// also run neighbouring seeds and require that not all outputs are equal (C09, only for configurations with guaranteed activity)
    pub seeds_differ: bool,
    /// C17: tick offsets of the imposed mid-price path (quotes moved by the harness), and the half-tick flag per step
    pub path: Vec<(i32, bool)>,
    pub centre: u32,
    /// C17: the harness moves its quotes by re-pricing them (modify instructions) instead of cancel + place
    #[serde(default)]
    pub quote_by_modify: bool,
    /// C16: trading is halted at the start of step `.0` and resumed at the start of step `.1` (agents keep acting: the
    /// book may cross while halted)
    #[serde(default)]
    pub halts: Vec<(u64, u64)>,
    /// C17: steps the environment makes before the agents' first update (>= 1: the quotes must be resting)
    #[serde(default)]
    pub warmup: u8,
    /// C17: every k-th step is followed by one more environment step without an agent update (0 = never)
    #[serde(default)]
    pub extra_step_every: u8,
    /// C09: before the second in-process run an earlier simulation is abandoned on the same thread with instructions
    /// still queued (as after a caught panic); it must not influence the next one
    #[serde(default)]
    pub abandoned_first: bool,
    /// three-asset environments with ONE published level (MarketEnv<3, 1>: more assets than levels)
    #[serde(default)]
    pub small_levels: bool,
    /// environment steps made before the simulation proper (the opening book rests; the env is not fresh)
    #[serde(default)]
    pub prestep: u8,
}

#[derive(Clone, Debug, Serialize, Deserialize, PartialEq)]
pub struct W4Scn {
    pub cfg: W4Cfg,
    pub agents: Vec<AgentSpec>,
    /// initial resting orders submitted before the first step: (asset, bid, price, vol)
    pub initial: Vec<(usize, bool, u32, u32)>,
    /// boundary-value injections into the generator stream: (draw index, class)
    pub inject: Vec<(u64, u8)>,
}

// ---------------------------------------------------------------------------------------------
// agent slots and derived sets
// ---------------------------------------------------------------------------------------------

pub enum Slot {
    Empty,
    Random(RandomAgents),
    Noise(NoiseAgent),
    Momentum(MomentumAgent),
}
impl Agent for Slot {
    fn update<R: RngCore>(&mut self, env: &mut Env, rng: &mut R) {
        match self {
            Slot::Empty => {}
            Slot::Random(a) => a.update(env, rng),
            Slot::Noise(a) => a.update(env, rng),
            Slot::Momentum(a) => a.update(env, rng),
        }
    }
}
pub enum MSlot {
    Empty,
    Random(RandomMarketAgents),
    Noise(NoiseMarketAgent),
    Momentum(MomentumMarketAgent),
}
impl MarketAgent for MSlot {
    fn update<R: RngCore, const M: usize, const N: usize>(&mut self, env: &mut MarketEnv<M, N>, rng: &mut R) {
        match self {
            MSlot::Empty => {}
            MSlot::Random(a) => a.update(env, rng),
            MSlot::Noise(a) => a.update(env, rng),
            MSlot::Momentum(a) => a.update(env, rng),
        }
    }
}

/// Eight slots combined through `#[derive(AgentSet)]` (real macro expansion from /repo/crates/macros).
#[derive(AgentSet)]
pub struct Set8 {
    pub f0: Slot,
    pub f1: Slot,
    pub f2: Slot,
    pub f3: Slot,
    pub f4: Slot,
    pub f5: Slot,
    pub f6: Slot,
    pub f7: Slot,
}
#[derive(MarketAgentSet)]
pub struct MSet8 {
    pub f0: MSlot,
    pub f1: MSlot,
    pub f2: MSlot,
    pub f3: MSlot,
    pub f4: MSlot,
    pub f5: MSlot,
    pub f6: MSlot,
    pub f7: MSlot,
}

pub const MAX_GROUPS: usize = 8;

fn noise_params(tick: u32, p_limit: f32, p_market: f32, p_cancel: f32, trade_vol: u32, mu: f64, sigma: f64) -> NoiseAgentParams {
    NoiseAgentParams { tick_size: tick, p_limit, p_market, p_cancel, trade_vol, price_dist_mu: mu, price_dist_sigma: sigma }
}
#[allow(clippy::too_many_arguments)]
fn mom_params(tick: u32, p_cancel: f32, trade_vol: u32, decay: f64, demand: f64, scale: f64, order_ratio: f64, mu: f64, sigma: f64) -> MomentumParams {
    MomentumParams { tick_size: tick, p_cancel, trade_vol, decay, demand, scale, order_ratio, price_dist_mu: mu, price_dist_sigma: sigma }
}

pub fn make_slot(s: &AgentSpec, ticks: &[u32]) -> Slot {
    let tick = ticks[0];
    match s {
        AgentSpec::Random { n, tick_lo, tick_hi, vol_lo, vol_hi, activity, .. } => Slot::Random(RandomAgents::new(*n, (*tick_lo, *tick_hi), (*vol_lo, *vol_hi), tick, *activity)),
        AgentSpec::Noise { id_start, n, p_limit, p_market, p_cancel, trade_vol, mu, sigma, .. } => Slot::Noise(NoiseAgent::new(*id_start, *n, noise_params(tick, *p_limit, *p_market, *p_cancel, *trade_vol, *mu, *sigma))),
        AgentSpec::Momentum { id_start, n, p_cancel, trade_vol, decay, demand, scale, order_ratio, mu, sigma, .. } => {
            Slot::Momentum(MomentumAgent::new(*id_start, *n, mom_params(tick, *p_cancel, *trade_vol, *decay, *demand, *scale, *order_ratio, *mu, *sigma)))
        }
    }
}
pub fn make_mslot(s: &AgentSpec, ticks: &[u32]) -> MSlot {
    let a = s.asset();
    let tick = ticks[a];
    match s {
        AgentSpec::Random { n, tick_lo, tick_hi, vol_lo, vol_hi, activity, .. } => MSlot::Random(RandomMarketAgents::new(a, *n, (*tick_lo, *tick_hi), (*vol_lo, *vol_hi), tick, *activity)),
        AgentSpec::Noise { id_start, n, p_limit, p_market, p_cancel, trade_vol, mu, sigma, .. } => {
            MSlot::Noise(NoiseMarketAgent::new(a, *id_start, *n, noise_params(tick, *p_limit, *p_market, *p_cancel, *trade_vol, *mu, *sigma)))
        }
        AgentSpec::Momentum { id_start, n, p_cancel, trade_vol, decay, demand, scale, order_ratio, mu, sigma, .. } => {
            MSlot::Momentum(MomentumMarketAgent::new(*id_start, *n, a, mom_params(tick, *p_cancel, *trade_vol, *decay, *demand, *scale, *order_ratio, *mu, *sigma)))
        }
    }
}

pub fn make_set(specs: &[AgentSpec], ticks: &[u32]) -> Set8 {
    let mut v: Vec<Slot> = specs.iter().take(MAX_GROUPS).map(|s| make_slot(s, ticks)).collect();
    while v.len() < MAX_GROUPS {
        v.push(Slot::Empty);
    }
    let mut it = v.into_iter();
    Set8 {
        f0: it.next().unwrap(),
        f1: it.next().unwrap(),
        f2: it.next().unwrap(),
        f3: it.next().unwrap(),
        f4: it.next().unwrap(),
        f5: it.next().unwrap(),
        f6: it.next().unwrap(),
        f7: it.next().unwrap(),
    }
}
pub fn make_mset(specs: &[AgentSpec], ticks: &[u32]) -> MSet8 {
    let mut v: Vec<MSlot> = specs.iter().take(MAX_GROUPS).map(|s| make_mslot(s, ticks)).collect();
    while v.len() < MAX_GROUPS {
        v.push(MSlot::Empty);
    }
    let mut it = v.into_iter();
    MSet8 {
        f0: it.next().unwrap(),
        f1: it.next().unwrap(),
        f2: it.next().unwrap(),
        f3: it.next().unwrap(),
        f4: it.next().unwrap(),
        f5: it.next().unwrap(),
        f6: it.next().unwrap(),
        f7: it.next().unwrap(),
    }
}

// ---------------------------------------------------------------------------------------------
// worlds: Env (= Env<10>) or MarketEnv<A,10>
// ---------------------------------------------------------------------------------------------

pub enum World {
    S(Box<Env>),
    M1(Box<MarketEnv<1, 10>>),
    M2(Box<MarketEnv<2, 10>>),
    M3(Box<MarketEnv<3, 10>>),
    /// three assets, ONE published level (more assets than levels)
    M3S(Box<MarketEnv<3, 1>>),
}

macro_rules! with_world {
    ($w:expr, |$e:ident| $body:expr) => {
        match $w {
            World::S($e) => $body,
            World::M1($e) => $body,
            World::M2($e) => $body,
            World::M3($e) => $body,
            World::M3S($e) => $body,
        }
    };
}

/// one queued instruction as the harness reads it from `get_transactions()`
#[derive(Clone, Debug, PartialEq)]
pub enum Queued {
    New { a: usize, id: usize },
    Cancel { a: usize, id: usize },
    Modify { a: usize, id: usize },
}

impl World {
    pub fn new(cfg: &W4Cfg) -> World {
        let t: [u32; 3] = [cfg.ticks.first().copied().unwrap_or(1), cfg.ticks.get(1).copied().unwrap_or(1), cfg.ticks.get(2).copied().unwrap_or(1)];
        if !cfg.market {
            World::S(Box::new(Env::new(cfg.t0, t[0], cfg.step_size, cfg.trading0)))
        } else {
            match cfg.assets {
                1 => World::M1(Box::new(MarketEnv::<1, 10>::new(cfg.t0, [t[0]], cfg.step_size, cfg.trading0))),
                2 => World::M2(Box::new(MarketEnv::<2, 10>::new(cfg.t0, [t[0], t[1]], cfg.step_size, cfg.trading0))),
                _ if cfg.small_levels => World::M3S(Box::new(MarketEnv::<3, 1>::new(cfg.t0, [t[0], t[1], t[2]], cfg.step_size, cfg.trading0))),
                _ => World::M3(Box::new(MarketEnv::<3, 10>::new(cfg.t0, [t[0], t[1], t[2]], cfg.step_size, cfg.trading0))),
            }
        }
    }
    pub fn assets(&self) -> usize {
        with_world!(self, |e| EnvLike::assets(e.as_ref()))
    }
    pub fn obs(&self, a: usize) -> EnvAssetObs {
        with_world!(self, |e| EnvLike::obs(e.as_ref(), a))
    }
    pub fn orders(&self, a: usize) -> Vec<OOrder> {
        with_world!(self, |e| EnvLike::env_orders(e.as_ref(), a))
    }
    pub fn n_orders(&self, a: usize) -> usize {
        with_world!(self, |e| EnvLike::n_orders(e.as_ref(), a))
    }
    pub fn place(&mut self, a: usize, bid: bool, vol: u32, trader: u32, price: Option<u32>) -> Result<(usize, usize), String> {
        with_world!(self, |e| EnvLike::place(e.as_mut(), a, bid, vol, trader, price))
    }
    pub fn cancel(&mut self, a: usize, id: usize) {
        with_world!(self, |e| EnvLike::cancel(e.as_mut(), a, id))
    }
    pub fn modify(&mut self, a: usize, id: usize, p: Option<u32>, v: Option<u32>) {
        with_world!(self, |e| EnvLike::modify(e.as_mut(), a, id, p, v))
    }
    pub fn set_trading(&mut self, on: bool) {
        if on {
            with_world!(self, |e| EnvLike::enable_trading(e.as_mut()))
        } else {
            with_world!(self, |e| EnvLike::disable_trading(e.as_mut()))
        }
    }
    pub fn step(&mut self, rng: &mut SeamRng) {
        with_world!(self, |e| EnvLike::step(e.as_mut(), rng))
    }
    pub fn mid(&self, a: usize) -> f64 {
        match self {
            World::S(e) => e.get_orderbook().mid_price(),
            World::M1(e) => e.get_market().get_order_book(a).mid_price(),
            World::M2(e) => e.get_market().get_order_book(a).mid_price(),
            World::M3(e) => e.get_market().get_order_book(a).mid_price(),
            World::M3S(e) => e.get_market().get_order_book(a).mid_price(),
        }
    }
    pub fn queue(&self) -> Vec<Queued> {
        fn conv1(e: &Event<usize>) -> Queued {
            match e {
                Event::New { order_id } => Queued::New { a: 0, id: *order_id },
                Event::Cancellation { order_id } => Queued::Cancel { a: 0, id: *order_id },
                Event::Modify { order_id, .. } => Queued::Modify { a: 0, id: *order_id },
            }
        }
        fn conv2(e: &Event<(usize, usize)>) -> Queued {
            match e {
                Event::New { order_id } => Queued::New { a: order_id.0, id: order_id.1 },
                Event::Cancellation { order_id } => Queued::Cancel { a: order_id.0, id: order_id.1 },
                Event::Modify { order_id, .. } => Queued::Modify { a: order_id.0, id: order_id.1 },
            }
        }
        match self {
            World::S(e) => e.verif_queued().iter().map(conv1).collect(),
            World::M1(e) => e.verif_queued().iter().map(conv2).collect(),
            World::M2(e) => e.verif_queued().iter().map(conv2).collect(),
            World::M3(e) => e.verif_queued().iter().map(conv2).collect(),
            World::M3S(e) => e.verif_queued().iter().map(conv2).collect(),
        }
    }
    pub fn digest(&self) -> u64 {
        let mut h = Fnv::new();
        for a in 0..self.assets() {
            let o = self.obs(a);
            h.u64(o.book.digest());
            h.u64(o.hist.digest());
            h.u64(o.book.trade_vol as u64);
        }
        h.0
    }
    /// the shipped runner (own Xoroshiro128** from `seed`), with the derived agent set
    pub fn run_shipped(&mut self, specs: &[AgentSpec], ticks: &[u32], seed: u64, n_steps: u64, progress: bool) {
        match self {
            World::S(e) => {
                let mut set = make_set(specs, ticks);
                sim_runner(e.as_mut(), &mut set, seed, n_steps, progress)
            }
            World::M1(e) => {
                let mut set = make_mset(specs, ticks);
                market_sim_runner(e.as_mut(), &mut set, seed, n_steps, progress)
            }
            World::M2(e) => {
                let mut set = make_mset(specs, ticks);
                market_sim_runner(e.as_mut(), &mut set, seed, n_steps, progress)
            }
            World::M3(e) => {
                let mut set = make_mset(specs, ticks);
                market_sim_runner(e.as_mut(), &mut set, seed, n_steps, progress)
            }
            World::M3S(e) => {
                let mut set = make_mset(specs, ticks);
                market_sim_runner(e.as_mut(), &mut set, seed, n_steps, progress)
            }
        }
    }
    /// two consecutive calls of the shipped runner on the same environment and the same agents (a warm-up phase and a
    /// main phase, each with its own seed); between the two the environment value may be moved to another heap address
    pub fn run_shipped_two_phase(&mut self, specs: &[AgentSpec], ticks: &[u32], seeds: (u64, u64), steps: (u64, u64), relocate_env: bool) -> bool {
        fn relocate<T>(b: &mut Box<T>, fresh: T) -> bool {
            let old_addr = &**b as *const T as usize;
            let nb = Box::new(fresh); // allocated while the old box is alive: a different address
            let old = std::mem::replace(b, nb);
            **b = *old;
            (&**b as *const T as usize) != old_addr
        }
        let mut moved = false;
        match self {
            World::S(e) => {
                let mut set = make_set(specs, ticks);
                sim_runner(e.as_mut(), &mut set, seeds.0, steps.0, false);
                if relocate_env {
                    moved = relocate(e, Env::new(0, 1, 1, true));
                }
                sim_runner(e.as_mut(), &mut set, seeds.1, steps.1, false)
            }
            World::M1(e) => {
                let mut set = make_mset(specs, ticks);
                market_sim_runner(e.as_mut(), &mut set, seeds.0, steps.0, false);
                if relocate_env {
                    moved = relocate(e, MarketEnv::<1, 10>::new(0, [1], 1, true));
                }
                market_sim_runner(e.as_mut(), &mut set, seeds.1, steps.1, false)
            }
            World::M2(e) => {
                let mut set = make_mset(specs, ticks);
                market_sim_runner(e.as_mut(), &mut set, seeds.0, steps.0, false);
                if relocate_env {
                    moved = relocate(e, MarketEnv::<2, 10>::new(0, [1, 1], 1, true));
                }
                market_sim_runner(e.as_mut(), &mut set, seeds.1, steps.1, false)
            }
            World::M3(e) => {
                let mut set = make_mset(specs, ticks);
                market_sim_runner(e.as_mut(), &mut set, seeds.0, steps.0, false);
                if relocate_env {
                    moved = relocate(e, MarketEnv::<3, 10>::new(0, [1, 1, 1], 1, true));
                }
                market_sim_runner(e.as_mut(), &mut set, seeds.1, steps.1, false)
            }
            World::M3S(e) => {
                let mut set = make_mset(specs, ticks);
                market_sim_runner(e.as_mut(), &mut set, seeds.0, steps.0, false);
                if relocate_env {
                    moved = relocate(e, MarketEnv::<3, 1>::new(0, [1, 1, 1], 1, true));
                }
                market_sim_runner(e.as_mut(), &mut set, seeds.1, steps.1, false)
            }
        }
        moved
    }
    /// the documented loop `agents.update(env, rng); env.step(rng)` with the harness's generator
    pub fn run_manual(&mut self, specs: &[AgentSpec], ticks: &[u32], rng: &mut SeamRng, n_steps: u64) {
        match self {
            World::S(e) => {
                let mut set = make_set(specs, ticks);
                for _ in 0..n_steps {
                    AgentSet::update(&mut set, e.as_mut(), rng);
                    e.step(rng);
                }
            }
            World::M1(e) => {
                let mut set = make_mset(specs, ticks);
                for _ in 0..n_steps {
                    MarketAgentSet::update(&mut set, e.as_mut(), rng);
                    e.step(rng);
                }
            }
            World::M2(e) => {
                let mut set = make_mset(specs, ticks);
                for _ in 0..n_steps {
                    MarketAgentSet::update(&mut set, e.as_mut(), rng);
                    e.step(rng);
                }
            }
            World::M3(e) => {
                let mut set = make_mset(specs, ticks);
                for _ in 0..n_steps {
                    MarketAgentSet::update(&mut set, e.as_mut(), rng);
                    e.step(rng);
                }
            }
            World::M3S(e) => {
                let mut set = make_mset(specs, ticks);
                for _ in 0..n_steps {
                    MarketAgentSet::update(&mut set, e.as_mut(), rng);
                    e.step(rng);
                }
            }
        }
    }
}

/// one agent group driven individually (C16 / C17 need per-group attribution)
pub enum Group {
    S(Slot),
    M(MSlot),
}
impl Group {
    pub fn new(spec: &AgentSpec, cfg: &W4Cfg) -> Group {
        if cfg.market {
            Group::M(make_mslot(spec, &cfg.ticks))
        } else {
            Group::S(make_slot(spec, &cfg.ticks))
        }
    }
    pub fn update(&mut self, w: &mut World, rng: &mut SeamRng) {
        match (self, w) {
            (Group::S(s), World::S(e)) => Agent::update(s, e.as_mut(), rng),
            (Group::M(s), World::M1(e)) => MarketAgent::update(s, e.as_mut(), rng),
            (Group::M(s), World::M2(e)) => MarketAgent::update(s, e.as_mut(), rng),
            (Group::M(s), World::M3(e)) => MarketAgent::update(s, e.as_mut(), rng),
            (Group::M(s), World::M3S(e)) => MarketAgent::update(s, e.as_mut(), rng),
            _ => panic!("harness: agent group / world mismatch"),
        }
    }
}

fn seed_world(w: &mut World, scn: &W4Scn) {
    for (a, bid, price, vol) in &scn.initial {
        let _ = w.place(*a, *bid, *vol, 7777, Some(*price));
    }
    // `prestep`: the opening book is made to rest by steps of its own before the simulation proper starts (the
    // environment handed to the runner is then not a fresh one: its histories already hold entries)
    for k in 0..scn.cfg.prestep {
        let mut pre = SeamRng::passthrough(0x0BE9 + k as u64);
        w.step(&mut pre);
    }
}

/// Complete simulation through the shipped runner; returns the digest of everything observable.
pub fn sim_shipped(scn: &W4Scn, seed: u64, progress: bool) -> u64 {
    let mut w = World::new(&scn.cfg);
    seed_world(&mut w, scn);
    w.run_shipped(&scn.agents, &scn.cfg.ticks, seed, scn.cfg.n_steps, progress);
    w.digest()
}

pub fn sim_manual(scn: &W4Scn, seed: u64) -> (u64, u64) {
    sim_manual_kind(scn, seed, 0)
}

pub fn sim_manual_kind(scn: &W4Scn, seed: u64, kind: usize) -> (u64, u64) {
    sim_manual_kind_skip(scn, seed, kind, 0)
}

pub fn sim_manual_kind_skip(scn: &W4Scn, seed: u64, kind: usize, skip: u64) -> (u64, u64) {
    use rand::RngCore;
    let mut w = World::new(&scn.cfg);
    seed_world(&mut w, scn);
    let mut rng = SeamRng::passthrough_kind(seed, kind);
    for _ in 0..skip {
        let _ = rng.next_u64();
    }
    w.run_manual(&scn.agents, &scn.cfg.ticks, &mut rng, scn.cfg.n_steps);
    (w.digest(), rng.draws)
}

// ---------------------------------------------------------------------------------------------
// C09
// ---------------------------------------------------------------------------------------------

fn v(scn: &W4Scn, class: &str, field: &str, exp: String, act: String) -> Violation {
    Violation::new(&scn.cfg.property, class, 0, field, exp, act)
}

/// Entry point of `bourse-dst child-sim`: reads a scenario (JSON) on stdin, prints the digest.
pub fn child_main(args: &[String]) -> i32 {
    let mut s = String::new();
    use std::io::Read;
    if std::io::stdin().read_to_string(&mut s).is_err() {
        return 2;
    }
    let scn: W4Scn = match serde_json::from_str(&s) {
        Ok(x) => x,
        Err(_) => return 2,
    };
    let flags = scn.cfg.child.clone().unwrap_or_default();
    let _ = args;
    // perturbation: shift the heap before anything else is allocated by the simulation
    let mut junk: Vec<Vec<u8>> = vec![];
    for i in 0..flags.junk_allocs {
        junk.push(vec![i as u8; 17 + (i * 131) % 4096]);
    }
    let run = move || sim_shipped(&scn, scn.cfg.seed, flags.progress);
    let d = if flags.thread {
        std::thread::Builder::new().stack_size(16 << 20).spawn(run).unwrap().join().unwrap()
    } else {
        run()
    };
    drop(junk);
    println!("{}", d);
    0
}

fn run_child(scn: &W4Scn, run_dir: &str) -> Result<u64, String> {
    use std::io::Write;
    use std::process::{Command, Stdio};
    let flags = scn.cfg.child.clone().unwrap_or_default();
    let exe = std::env::current_exe().map_err(|e| e.to_string())?;
    let mut cmd = Command::new(exe);
    cmd.arg("child-sim").stdin(Stdio::piped()).stdout(Stdio::piped());
    let errfile = format!("{}/child_stderr_{}.txt", run_dir, scn.cfg.seed);
    match flags.stderr {
        0 => {
            cmd.stderr(Stdio::null());
        }
        1 => {
            cmd.stderr(Stdio::piped());
        }
        _ => match std::fs::File::create(&errfile) {
            Ok(f) => {
                cmd.stderr(Stdio::from(f));
            }
            Err(_) => {
                cmd.stderr(Stdio::null());
            }
        },
    }
    if flags.other_env {
        cmd.env_clear();
        cmd.env("BOURSE_DST_PERTURB", format!("{}", scn.cfg.seed));
        cmd.env("TERM", "dumb");
        cmd.env("COLUMNS", "37");
    }
    if flags.other_cwd {
        cmd.current_dir("/");
    }
    let mut ch = cmd.spawn().map_err(|e| format!("spawn: {}", e))?;
    {
        let mut sin = ch.stdin.take().ok_or("no stdin")?;
        sin.write_all(serde_json::to_string(scn).unwrap().as_bytes()).map_err(|e| e.to_string())?;
    }
    let out = ch.wait_with_output().map_err(|e| e.to_string())?;
    let _ = std::fs::remove_file(&errfile);
    if !out.status.success() {
        return Err(format!("child exited with {:?}", out.status.code()));
    }
    String::from_utf8_lossy(&out.stdout).trim().parse::<u64>().map_err(|e| format!("child output: {}", e))
}

pub fn execute_c09(scn: &W4Scn, run_dir: &str) -> RunOutcome {
    let mut stats = RunStats::default();
    let seed = scn.cfg.seed;
    let res = (|| -> Result<(), Violation> {
        // an aborting simulation is the subject of C16, not of C09: it is skipped here (counted)
        let d1 = match guard(|| sim_shipped(scn, seed, false)) {
            Ok(d) => d,
            Err(_) => {
                stats.probe("aborted_simulation_skipped");
                return Ok(());
            }
        };
        if scn.cfg.abandoned_first {
            // an earlier simulation on this thread, abandoned between the agents' update and the step (instructions still
            // queued), as after a caught panic: nothing of it may leak into the next run
            let _ = guard(|| {
                let mut w = World::new(&scn.cfg);
                for (a, bid, price, vol) in &scn.initial {
                    let _ = w.place(*a, *bid, *vol, 7777, Some(*price));
                }
                let mut rng = SeamRng::passthrough(seed ^ 0x5eed);
                let mut groups: Vec<Group> = scn.agents.iter().map(|s| Group::new(s, &scn.cfg)).collect();
                for g in groups.iter_mut() {
                    g.update(&mut w, &mut rng);
                }
                let queued = w.queue().len();
                drop(w);
                queued
            });
            stats.fault("abandoned_simulation_before_rerun");
        }
        let d2 = guard(|| sim_shipped(scn, seed, false)).map_err(|m| v(scn, "agent-abort", "sim_runner", "no abort".into(), m))?;
        stats.probe("in_process_rerun");
        if d1 != d2 {
            return Err(v(scn, "nondeterministic", "digest(run 1) vs digest(run 2)", d1.to_string(), d2.to_string()).detail("two runs of the shipped runner with identical seed and parameters in one process differ".into()));
        }
        let (d3, draws) = guard(|| sim_manual(scn, seed)).map_err(|m| v(scn, "agent-abort", "manual loop", "no abort".into(), m))?;
        stats.probe("manual_loop_with_seam_rng");
        stats.probe_n("rng_draws", draws);
        if d1 != d3 {
            // no property names the generator the runner builds from `seed` (algorithm, warm-up draws discarded before the
            // first update): before reporting, look for a member of the seedable family / a warm-up length with which the
            // documented loop reproduces the runner (such a change keeps C09 true). The first combination found is
            // remembered for the rest of the process; a search that finds nothing is done at most a few times.
            use std::sync::atomic::{AtomicIsize, AtomicUsize, Ordering};
            static REMEMBER: AtomicUsize = AtomicUsize::new(0);
            static BUDGET: AtomicIsize = AtomicIsize::new(6);
            let try_one = |kind: usize, skip: u64| -> bool { matches!(guard(|| sim_manual_kind_skip(scn, seed, kind, skip)), Ok((dk, _)) if dk == d1) };
            let mut found = false;
            let r = REMEMBER.load(Ordering::Relaxed);
            if r != 0 {
                found = try_one((r - 1) / 1000, ((r - 1) % 1000) as u64);
            }
            if !found && BUDGET.load(Ordering::Relaxed) > 0 {
                'search: for skip in (0..=32u64).chain([48, 64, 100, 128, 256, 512]) {
                    for kind in 0..crate::rng::GEN_NAMES.len() {
                        if (kind, skip) != (0, 0) && try_one(kind, skip) {
                            REMEMBER.store(kind * 1000 + skip as usize + 1, Ordering::Relaxed);
                            found = true;
                            break 'search;
                        }
                    }
                }
                if !found {
                    BUDGET.fetch_sub(1, Ordering::Relaxed);
                }
            }
            if found {
                stats.probe("runner_generator_other_family_member_or_warmup");
            } else {
                return Err(v(scn, "nondeterministic", "digest(sim_runner) vs digest(manual loop with the seeded generator)", d1.to_string(), d3.to_string())
                    .detail("the shipped runner differs from `agents.update(env, rng); env.step(rng)` driven by a generator built from the seed (Xoroshiro128** and 15 other seedable generators, 0..512 warm-up draws tried): some randomness does not come from the seeded generator, or the runner does something else".into()));
            }
        }
        if scn.cfg.child.is_some() {
            match run_child(scn, run_dir) {
                Ok(d4) => {
                    stats.fault("separate_process");
                    let f = scn.cfg.child.clone().unwrap();
                    if f.progress {
                        stats.fault("progress_bar_branch");
                    }
                    if f.junk_allocs > 0 {
                        stats.fault("shifted_heap");
                    }
                    if f.thread {
                        stats.fault("non_main_thread");
                    }
                    if f.other_env {
                        stats.fault("other_environment");
                    }
                    if f.other_cwd {
                        stats.fault("other_cwd");
                    }
                    match f.stderr {
                        0 => stats.fault("stderr_null"),
                        1 => stats.fault("stderr_pipe"),
                        _ => stats.fault("stderr_file"),
                    }
                    if d4 != d1 {
                        return Err(v(scn, "nondeterministic", "digest(this process) vs digest(separate process)", d1.to_string(), d4.to_string())
                            .detail(format!("a separate OS process ({:?}) produced a different simulation from the same seed and parameters", f)));
                    }
                }
                Err(e) => {
                    // the child crashed although the in-process run did not: that is a difference too
                    return Err(v(scn, "nondeterministic", "separate process", "same digest".into(), e));
                }
            }
        }
        if scn.cfg.seeds_differ {
            let mut all_equal = true;
            for k in 1..16u64 {
                let dk = guard(|| sim_shipped(scn, seed.wrapping_add(k), false)).map_err(|m| v(scn, "agent-abort", "sim_runner", "no abort".into(), m))?;
                if dk != d1 {
                    all_equal = false;
                    break;
                }
            }
            stats.probe("seeds_differ_checked");
            // pairwise: the two neighbouring seeds (wrapping around the ends of the u64 domain) each give a different run
            // ... and so do seeds that differ from it in exactly one bit (top bit, the 32-bit boundary, a seed-chosen bit)
            let kbit = (seed ^ (seed >> 17) ^ scn.cfg.n_steps) % 64;
            for (name, s2) in [
                ("seed+1", seed.wrapping_add(1)),
                ("seed-1", seed.wrapping_sub(1)),
                ("seed^2^63", seed ^ (1 << 63)),
                ("seed^2^32", seed ^ (1 << 32)),
                ("seed^2^31", seed ^ (1 << 31)),
                ("seed^2^k", seed ^ (1u64 << kbit)),
            ] {
                let dk = guard(|| sim_shipped(scn, s2, false)).map_err(|m| v(scn, "agent-abort", "sim_runner", "no abort".into(), m))?;
                if dk == d1 {
                    return Err(v(scn, "nondeterministic", &format!("digest(seed {}) vs digest({} = {})", seed, name, s2), "different runs".into(), "identical runs".into())
                        .detail("two different seeds give the same simulation although activity is guaranteed (>= 4 random traders acting every step over >= 5 steps)".into()));
                }
            }
            if seed == 0 || seed >= u64::MAX - 1 {
                stats.probe("seed_domain_end_checked");
            }
            if all_equal {
                return Err(v(scn, "nondeterministic", "16 distinct seeds", "not all outputs equal".into(), "all equal".into()).detail("the seed does not influence a simulation with guaranteed activity".into()));
            }
        }
        // two runner calls on one environment and one agent set (warm-up + main phase): where the environment value lives in
        // memory between the two calls must not matter (addresses are not an input of a simulation)
        if seed % 4 == 0 && scn.cfg.n_steps >= 2 {
            let steps = (scn.cfg.n_steps / 2, scn.cfg.n_steps - scn.cfg.n_steps / 2);
            let seeds = (seed, seed ^ 0x9E37_79B9);
            let two = |relocate: bool| -> (u64, bool) {
                let mut w = World::new(&scn.cfg);
                seed_world(&mut w, scn);
                let moved = w.run_shipped_two_phase(&scn.agents, &scn.cfg.ticks, seeds, steps, relocate);
                (w.digest(), moved)
            };
            let (da, _) = guard(|| two(false)).map_err(|m| v(scn, "agent-abort", "sim_runner (two phases)", "no abort".into(), m))?;
            let (db, moved) = guard(|| two(true)).map_err(|m| v(scn, "agent-abort", "sim_runner (two phases, environment moved)", "no abort".into(), m))?;
            if moved {
                stats.fault("environment_relocated_between_runner_calls");
            }
            if da != db {
                return Err(v(scn, "nondeterministic", "digest(two runner calls) vs digest(two runner calls, environment moved in memory in between)", da.to_string(), db.to_string())
                    .detail("the same environment value at another memory address gives another simulation: an address influences the outcome".into()));
            }
        }
        stats.end_digest = d1;
        Ok(())
    })();
    stats.ops = scn.cfg.n_steps;
    stats.sim_time = scn.cfg.n_steps * scn.cfg.step_size;
    RunOutcome { violation: res.err(), stats }
}

pub fn side_of(bid: bool) -> Side {
    side(bid)
}
