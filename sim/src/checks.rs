//! Registry of checks: one `CheckSpec` per property.
use crate::core::*;
use crate::runner::CheckSpec;
use crate::scenario::Scenario;

const REAL_BOOK: &[&str] = &[
    "bourse-book (OrderBook, Market, side index, serde snapshot) from /repo working tree, release + overflow-checks + debug-assertions",
    "serde_json / serde_with",
    "real file system for snapshot files (scratch under /verif/run)",
];
const NO_STUB: &[&str] = &[];
const ASSUME_BOOK: &[&str] = &[
    "valid histories only, as stated in the property (ids exist, volumes >= 1, grid prices strictly inside (0, 2^32-1), volume sums < 2^32, clock never backwards)",
    "sampling, not enumeration: a clean batch is evidence, not proof",
];

fn p(s: &RunStats, k: &str) -> u64 {
    s.probes.get(k).copied().unwrap_or(0)
}

fn gen_w1(prop: &str, seed: u64, _tier: Tier) -> Scenario {
    Scenario::W1(crate::w1gen::generate(prop, seed))
}

fn nt_c01(s: &RunStats) -> bool {
    p(s, "op_with_trades") >= 1 && p(s, "partial_fill_of_queue_head") >= 1 && p(s, "same_price_fifo_consumed_2plus") + p(s, "same_price_depth_3plus") >= 1
}
fn nt_trades(s: &RunStats) -> bool {
    p(s, "op_with_trades") >= 1 && s.ops >= 5
}
fn nt_c04(s: &RunStats) -> bool {
    p(s, "redundant_cancel") + p(s, "redundant_place") + p(s, "redundant_modify") + p(s, "modify_nothing") >= 1 && p(s, "op_with_trades") >= 1
}
fn nt_c05(s: &RunStats) -> bool {
    p(s, "tie_collisions") >= 1
}
fn nt_c06(s: &RunStats) -> bool {
    p(s, "modify_reduce_in_place") >= 1 && p(s, "modify_reprice") + p(s, "modify_equal_volume") + p(s, "modify_increase") >= 1
}
fn nt_c07(s: &RunStats) -> bool {
    p(s, "crash_restart") + p(s, "twin_kept") >= 1 && p(s, "op_with_trades") >= 1
}
fn nt_c12(s: &RunStats) -> bool {
    s.faults.get("offgrid_create_request").copied().unwrap_or(0) >= 1
}
fn nt_c13(s: &RunStats) -> bool {
    s.faults.get("trading_halt").copied().unwrap_or(0) >= 1 && p(s, "op_with_trades") >= 1
}

pub fn specs() -> Vec<CheckSpec> {
    vec![
        CheckSpec {
            id: "C01",
            generate: gen_w1,
            runs_quick: 200_000,
            runs_thorough: 12_000_000,
            rule: "seeded histories of create/place/create-and-place/cancel/process_event/set_time on one OrderBook<L> (tick 1..10, L 1..24, clock discipline); refinement against the reference engine after every operation plus a final drain probe. Non-trivial = at least one trade, one partial fill of a queue head and a same-price FIFO of depth >= 2 exercised; distinct = distinct digest of the complete final observation",
            nontrivial: nt_c01,
            real: REAL_BOOK,
            stub: NO_STUB,
            assumptions: ASSUME_BOOK,
            explanation: "refinement of the real OrderBook against a ~300 line sorted-vector matching engine; complete observation compared after every operation",
            expected_probes: &["partial_fill_of_queue_head", "aggressor_swept_2plus_levels", "market_remainder_cancelled", "same_price_depth_3plus", "trade_passive_bid", "trade_passive_ask", "cancel_of_partially_filled", "drain_probe"],
        },
        CheckSpec {
            id: "C02",
            generate: gen_w1,
            runs_quick: 150_000,
            runs_thorough: 8_000_000,
            rule: "histories incl. modifications, trading halts and snapshot reloads on OrderBook<L> and Market<A,L>; every published view recomputed from get_orders() alone after every operation (no model), mid-price included, non-crossing clause while trading was never disabled. Non-trivial = at least one trade and >= 5 applied operations; distinct = final observation digest",
            nontrivial: nt_trades,
            real: REAL_BOOK,
            stub: NO_STUB,
            assumptions: ASSUME_BOOK,
            explanation: "invariant monitoring by independent recomputation; no reference model involved",
            expected_probes: &["crossed_book_state", "modify_traded", "crash_restart", "trading_halt"],
        },
        CheckSpec {
            id: "C03",
            generate: gen_w1,
            runs_quick: 150_000,
            runs_thorough: 8_000_000,
            rule: "histories incl. trading modifications, halts and reset_trade_vol; model-free ledger audit after every operation (prefix immutability, per-trade field checks, per-order volume reconciliation, cumulative counter). Non-trivial = at least one trade and >= 5 applied operations",
            nontrivial: nt_trades,
            real: REAL_BOOK,
            stub: NO_STUB,
            assumptions: ASSUME_BOOK,
            explanation: "ledger audit on the recorded history, operation by operation",
            expected_probes: &["modify_traded", "partial_fill_of_queue_head", "trading_halt"],
        },
        CheckSpec {
            id: "C04",
            generate: gen_w1,
            runs_quick: 150_000,
            runs_thorough: 8_000_000,
            rule: "histories dominated by duplicate / stale requests (place, cancel, modify against orders in every status; market orders while halted); lifecycle transition relation on every order after every operation and full-snapshot equality around every redundant request. Non-trivial = at least one redundant request and one trade",
            nontrivial: nt_c04,
            real: REAL_BOOK,
            stub: NO_STUB,
            assumptions: &["valid histories as stated in the property (clock discipline not required by C04: ties allowed only where no two orders rest at one price and time is irrelevant to the clauses checked)", "sampling, not enumeration"],
            explanation: "model-free lifecycle monitor + snapshot equality around redundant requests",
            expected_probes: &["redundant_cancel", "redundant_place", "redundant_modify", "modify_nothing", "market_rejected_while_halted", "market_remainder_cancelled"],
        },
        CheckSpec {
            id: "C06",
            generate: gen_w1,
            runs_quick: 150_000,
            runs_thorough: 8_000_000,
            rule: "populated queues then every modify shape (price None/each alphabet price x volume None/smaller/equal/larger) against orders in every status, continuations and a drain probe that turns queue order into trade order; reference engine + model-free modify invariants. Non-trivial = at least one in-place reduction and one re-queuing modification",
            nontrivial: nt_c06,
            real: REAL_BOOK,
            stub: NO_STUB,
            assumptions: ASSUME_BOOK,
            explanation: "refinement against the reference engine (reduce-in-place versus remove-and-re-enter) + model-free identity checks",
            expected_probes: &["modify_reduce_in_place", "modify_equal_volume", "modify_increase", "modify_reprice", "modify_traded", "redundant_modify", "modify_nothing", "drain_probe"],
        },
        CheckSpec {
            id: "C12",
            generate: gen_w1,
            runs_quick: 150_000,
            runs_thorough: 8_000_000,
            rule: "creation requests with arbitrary prices (on/off grid, extremes) through OrderBook and Market at random points of histories, off-grid re-price as a final operation; create Ok <=> price % tick == 0, full-snapshot equality around rejected creations, dense next id, all order prices on the grid, per-level data accounts for resting volume. Non-trivial = at least one off-grid creation request",
            nontrivial: nt_c12,
            real: REAL_BOOK,
            stub: NO_STUB,
            assumptions: ASSUME_BOOK,
            explanation: "fault injection of invalid requests with full-snapshot comparison around each",
            expected_probes: &["offgrid_create_request", "offgrid_reprice_request"],
        },
        CheckSpec {
            id: "C13",
            generate: gen_w1,
            runs_quick: 150_000,
            runs_thorough: 8_000_000,
            rule: "histories with the trading switch toggled at arbitrary points (also constructed halted), crossing placements and re-prices while halted, aggressors after resuming; reference engine with the flag + model-free clauses (no trade while halted, rejected market orders leave the book untouched, a toggle alone changes nothing). Non-trivial = at least one halt and one trade",
            nontrivial: nt_c13,
            real: REAL_BOOK,
            stub: NO_STUB,
            assumptions: ASSUME_BOOK,
            explanation: "partition/heal style fault (halt/resume) against the reference engine",
            expected_probes: &["trading_halt", "trading_resume", "market_rejected_while_halted", "crossed_book_state"],
        },
    ]
}

pub fn find(id: &str) -> Option<CheckSpec> {
    specs().into_iter().find(|s| s.id == id)
}
