//! Registry of checks: one `CheckSpec` per property.
use crate::core::*;
use crate::runner::CheckSpec;
use crate::scenario::Scenario;

const REAL_BOOK: &[&str] = &[
    "bourse-book (OrderBook, Market, side index, serde snapshot) from /repo working tree, release + overflow-checks + debug-assertions",
    "serde_json / serde_with",
    "real file system for snapshot files (scratch under /verif/run)",
];
const NO_STUB: &[&str] = &[];
const ASSUME_BOOK: &[&str] = &[
    "valid histories only, as stated in the property (ids exist, volumes >= 1, grid prices strictly inside (0, 2^32-1), volume sums < 2^32, clock never backwards)",
    "sampling, not enumeration: a clean batch is evidence, not proof",
];

fn p(s: &RunStats, k: &str) -> u64 {
    s.probes.get(k).copied().unwrap_or(0)
}

fn gen_w1(prop: &str, seed: u64, _tier: Tier, _idx: u64) -> Scenario {
    Scenario::W1(crate::w1gen::generate(prop, seed))
}

fn gen_w3(prop: &str, seed: u64, tier: Tier, _idx: u64) -> Scenario {
    Scenario::W3(crate::w3gen::generate_t(prop, seed, matches!(tier, Tier::Thorough)))
}
/// mixes the direct world (W1/W2) with the environment world (W3); the share is fixed per property
fn gen_mixed(prop: &str, seed: u64, tier: Tier, idx: u64) -> Scenario {
    let w3_share = match prop {
        "C05" => 30,
        "C12" => 20,
        "C13" => 25,
        "C14" => 50,
        _ => 0,
    };
    if crate::rng::mix(seed, 0x77_33) % 100 < w3_share {
        gen_w3(prop, seed, tier, idx)
    } else {
        gen_w1(prop, seed, tier, idx)
    }
}
const REAL_ENV: &[&str] = &[
    "bourse-de Env<L> / MarketEnv<A,L> (step, instruction queue, recorded histories) from /repo working tree, release + overflow-checks + debug-assertions",
    "bourse-book OrderBook / Market underneath, and stand-alone OrderBook<L> shadows",
    "rand 0.8.5 SliceRandom::shuffle driven by the harness's SeamRng (real Xoroshiro128** stream, optionally steered through the RngCore seam)",
];
fn nt_c08(s: &RunStats) -> bool {
    p(s, "step_with_trades") >= 1 && p(s, "non_identity_schedule") >= 1
}
fn nt_steps(s: &RunStats) -> bool {
    p(s, "steps") >= 2 && s.ops >= 3
}
fn nt_c11(s: &RunStats) -> bool {
    p(s, "asymmetric_book_recorded") >= 1 && p(s, "steps") >= 2
}
fn nt_c14(s: &RunStats) -> bool {
    (p(s, "op_with_trades") >= 1 && s.ops >= 5) || (p(s, "step_with_trades") >= 1 && p(s, "plain_book_replays") >= 1)
}

fn gen_w4(prop: &str, seed: u64, _tier: Tier, _idx: u64) -> Scenario {
    Scenario::W4(crate::w4gen::generate(prop, seed))
}
fn gen_shape(prop: &str, seed: u64, _tier: Tier, idx: u64) -> Scenario {
    Scenario::Shape(crate::w4probe::generate(prop, seed, idx))
}
fn gen_stat(prop: &str, seed: u64, _tier: Tier, idx: u64) -> Scenario {
    Scenario::Stat(crate::w3stat::generate(prop, seed, idx))
}
const REAL_AGENTS: &[&str] = &[
    "bourse-de built-in agents (RandomAgents, NoiseAgent, MomentumAgent and their multi-asset variants), sim_runner / market_sim_runner, Env / MarketEnv<A,10>",
    "bourse-macros #[derive(AgentSet)] / #[derive(MarketAgentSet)] expansions (8-slot sets)",
    "rand 0.8.5 / rand_distr 0.4.3 (LogNormal, gen_range, gen_bool), Xoroshiro128** behind the harness's SeamRng, kdam progress bar (child process)",
];
fn nt_ops(s: &RunStats) -> bool {
    s.ops >= 2
}
fn nt_c16(s: &RunStats) -> bool {
    p(s, "agent_orders_checked") >= 3
}
fn nt_c17(s: &RunStats) -> bool {
    p(s, "step_M_positive") >= 1 && p(s, "step_M_negative") >= 1
}
fn nt_any(_s: &RunStats) -> bool {
    true
}

fn gen_w5(prop: &str, seed: u64, _tier: Tier, _idx: u64) -> Scenario {
    Scenario::W5(crate::w5gen::generate(prop, seed))
}
const REAL_PY: &[&str] = &[
    "bourse.core extension module (PyO3 0.20, rust/ crate) built from /repo working tree, imported by real CPython 3.11 (python3-vt) with numpy 2.x",
    "src/bourse/data_processing.py (real source, imported from an assembled package directory)",
    "bourse-book / bourse-de as the Rust core executing the same calls",
];
fn nt_c18(s: &RunStats) -> bool {
    s.ops >= 5 && p(s, "object_with_trades") >= 1
}
fn nt_c19(s: &RunStats) -> bool {
    p(s, "layout_calls_checked") >= 3 && p(s, "asymmetric_two_sided_book_at_end") >= 1
}

fn nt_c01(s: &RunStats) -> bool {
    p(s, "op_with_trades") >= 1 && p(s, "partial_fill_of_queue_head") >= 1 && p(s, "same_price_fifo_consumed_2plus") + p(s, "same_price_depth_3plus") >= 1
}
fn nt_trades(s: &RunStats) -> bool {
    p(s, "op_with_trades") >= 1 && s.ops >= 5
}
fn nt_c04(s: &RunStats) -> bool {
    p(s, "redundant_cancel") + p(s, "redundant_place") + p(s, "redundant_modify") + p(s, "modify_nothing") >= 1 && p(s, "op_with_trades") >= 1
}
fn nt_c05(s: &RunStats) -> bool {
    p(s, "tie_collisions") >= 1
}
fn nt_c06(s: &RunStats) -> bool {
    p(s, "modify_reduce_in_place") >= 1 && p(s, "modify_reprice") + p(s, "modify_equal_volume") + p(s, "modify_increase") >= 1
}
fn nt_c07(s: &RunStats) -> bool {
    p(s, "crash_restart") + p(s, "twin_kept") >= 1 && p(s, "op_with_trades") >= 1
}
fn nt_c12(s: &RunStats) -> bool {
    s.faults.get("offgrid_create_request").copied().unwrap_or(0) >= 1
}
fn nt_c13(s: &RunStats) -> bool {
    s.faults.get("trading_halt").copied().unwrap_or(0) >= 1 && p(s, "op_with_trades") >= 1
}

pub fn specs() -> Vec<CheckSpec> {
    vec![
        CheckSpec {
            id: "C01",
            generate: gen_w1,
            runs_quick: 400_000,
            runs_thorough: 12_000_000,
            rule: "seeded histories of create/place/create-and-place/cancel/process_event/set_time on one OrderBook<L> (tick 1..10, L 1..24, clock discipline); refinement against the reference engine after every operation plus a final drain probe. Non-trivial = at least one trade, one partial fill of a queue head and a same-price FIFO of depth >= 2 exercised; distinct = distinct digest of the complete final observation",
            finalize: None,
            preflight: None,
            nontrivial: nt_c01,
            real: REAL_BOOK,
            stub: NO_STUB,
            assumptions: ASSUME_BOOK,
            explanation: "refinement of the real OrderBook against a ~300 line sorted-vector matching engine; complete observation compared after every operation",
            expected_probes: &["partial_fill_of_queue_head", "aggressor_swept_2plus_levels", "market_remainder_cancelled", "same_price_depth_3plus", "trade_passive_bid", "trade_passive_ask", "cancel_of_partially_filled", "drain_probe", "crash_restart"],
        },
        CheckSpec {
            id: "C02",
            generate: gen_w1,
            runs_quick: 300_000,
            runs_thorough: 8_000_000,
            rule: "histories incl. modifications, trading halts and snapshot reloads on OrderBook<L> and Market<A,L>; every published view recomputed from get_orders() alone after every operation (no model), mid-price included, non-crossing clause while trading was never disabled. Non-trivial = at least one trade and >= 5 applied operations; distinct = final observation digest",
            finalize: None,
            preflight: None,
            nontrivial: nt_trades,
            real: REAL_BOOK,
            stub: NO_STUB,
            assumptions: ASSUME_BOOK,
            explanation: "invariant monitoring by independent recomputation; no reference model involved",
            expected_probes: &["crossed_book_state", "modify_traded", "crash_restart", "trading_halt", "book_level_trading_switch", "redundant_trading_switch"],
        },
        CheckSpec {
            id: "C03",
            generate: gen_w1,
            runs_quick: 300_000,
            runs_thorough: 8_000_000,
            rule: "histories incl. trading modifications, halts and reset_trade_vol; model-free ledger audit after every operation (prefix immutability, per-trade field checks, per-order volume reconciliation, cumulative counter). Non-trivial = at least one trade and >= 5 applied operations",
            finalize: None,
            preflight: None,
            nontrivial: nt_trades,
            real: REAL_BOOK,
            stub: NO_STUB,
            assumptions: ASSUME_BOOK,
            explanation: "ledger audit on the recorded history, operation by operation",
            expected_probes: &["modify_traded", "partial_fill_of_queue_head", "trading_halt"],
        },
        CheckSpec {
            id: "C04",
            generate: gen_w1,
            runs_quick: 300_000,
            runs_thorough: 8_000_000,
            rule: "histories dominated by duplicate / stale requests (place, cancel, modify against orders in every status; market orders while halted); lifecycle transition relation on every order after every operation and full-snapshot equality around every redundant request. Non-trivial = at least one redundant request and one trade",
            finalize: None,
            preflight: None,
            nontrivial: nt_c04,
            real: REAL_BOOK,
            stub: NO_STUB,
            assumptions: &["valid histories as stated in the property (clock discipline not required by C04: ties allowed only where no two orders rest at one price and time is irrelevant to the clauses checked)", "sampling, not enumeration"],
            explanation: "model-free lifecycle monitor + snapshot equality around redundant requests",
            expected_probes: &["redundant_cancel", "redundant_place", "redundant_modify", "modify_nothing", "market_rejected_while_halted", "market_remainder_cancelled", "crash_restart"],
        },
        CheckSpec {
            id: "C06",
            generate: gen_w1,
            runs_quick: 300_000,
            runs_thorough: 8_000_000,
            rule: "populated queues then every modify shape (price None/each alphabet price x volume None/smaller/equal/larger) against orders in every status, continuations and a drain probe that turns queue order into trade order; reference engine + model-free modify invariants. Non-trivial = at least one in-place reduction and one re-queuing modification",
            finalize: None,
            preflight: None,
            nontrivial: nt_c06,
            real: REAL_BOOK,
            stub: NO_STUB,
            assumptions: ASSUME_BOOK,
            explanation: "refinement against the reference engine (reduce-in-place versus remove-and-re-enter) + model-free identity checks",
            expected_probes: &["modify_reduce_in_place", "modify_equal_volume", "modify_increase", "modify_reprice", "modify_traded", "redundant_modify", "modify_nothing", "drain_probe"],
        },
        CheckSpec {
            id: "C05",
            generate: gen_mixed,
            runs_quick: 240_000,
            runs_thorough: 6_000_000,
            rule: "tie mode: histories on OrderBook<L> / Market<A,L> in which the clock is NOT advanced between queue insertions at one price (tie rate up to 80%, narrow alphabet share 60%), with cancels, modifications, aggressors, snapshot reloads and a final drain probe; all monitors of C01-C04/C06 run with the reference engine in FIFO tie semantics; a key-collision twin classifies divergences. Non-trivial = at least one queue insertion that shared (side, price, timestamp) with a resting order",
            finalize: None,
            preflight: None,
            nontrivial: nt_c05,
            real: REAL_BOOK,
            stub: NO_STUB,
            assumptions: &["valid histories as stated in the property, clock discipline deliberately NOT enforced", "environment clause (more instructions than step_size) is covered by the W3 world part of this check", "sampling, not enumeration"],
            explanation: "clock-tie fault injection; refinement against the FIFO reference engine + all model-free monitors; known-finding classification through an exact twin of the pinned side.rs maps",
            expected_probes: &["tie_collisions", "drain_probe", "crash_restart", "modify_reprice"],
        },
        CheckSpec {
            id: "C07",
            generate: gen_w1,
            runs_quick: 40_000,
            runs_thorough: 2_000_000,
            rule: "crash-restart fault: at seed-chosen operation boundaries the book / market is serialised (to_string, to_string_pretty, save_json compact/pretty) and restored (from_str / load_json) into the same or another level count; the original is dropped (crash) or kept as a twin; immediate complete-observation equality, lock-step equality under all later operations (reference engine too), drain probe; torn-write fault: every strict prefix of a written file must be rejected by load_json. Non-trivial = at least one restart or twin and at least one trade Half of the torn-write enumerations cut the file in place on the re-used snapshot path",
            finalize: None,
            preflight: None,
            nontrivial: nt_c07,
            real: REAL_BOOK,
            stub: NO_STUB,
            assumptions: ASSUME_BOOK,
            explanation: "crash/restart with only durable (JSON) state surviving, torn-write enumeration per sampled file, twins driven in lock-step",
            expected_probes: &["torn_write_in_place", "crash_restart", "twin_kept", "restart_with_partially_filled_order", "restart_with_unplaced_order", "restart_while_halted", "restart_into_other_level_count", "torn_write_offset", "snapshot_over_longer_file", "drain_probe"],
        },
        CheckSpec {
            id: "C08",
            generate: gen_w3,
            runs_quick: 200_000,
            runs_thorough: 3_000_000,
            rule: "sequences of steps on Env<L> / MarketEnv<A,L> with batches (0..12) of interacting new / cancel / modify instructions (several per order, targets created in the same step, duplicates, stale ids), steered and unsteered shuffles, halts; after each step the schedule is inferred from arrival / end timestamps and trades, and the belief set of reference-engine states consistent with everything observed is carried on; direct clauses (clock = start + step size, step volume = this step's trades) and a real plain OrderBook replaying the inferred schedule. Non-trivial = at least one step with trades and one step processed in a non-identity order",
            finalize: None,
            preflight: None,
            nontrivial: nt_c08,
            real: REAL_ENV,
            stub: NO_STUB,
            assumptions: &["valid histories as stated in the property; batch size <= step size", "at most 5 instructions per step that are not pinned by an arrival timestamp (cancels / modifies); runs whose belief set exceeds 256 states are closed as inconclusive (counted)", "sampling, not enumeration"],
            explanation: "schedule-belief-set oracle: some permutation of the submitted batch, each instruction processed exactly once at time start+i, must reproduce the complete observation",
            expected_probes: &["steered_schedule", "steering_hit", "non_identity_schedule", "step_with_trades", "plain_book_replays", "trading_halt", "batch_equals_step_size", "large_batch_step", "run_of_1024_plus_steps"],
        },
        CheckSpec {
            id: "C09",
            generate: gen_w4,
            runs_quick: 16_000,
            runs_thorough: 200_000,
            rule: "complete simulations (1..200 steps) of every composition of the built-in agent types, single- and multi-asset, combined through the derive macros; digest of all orders, trades, recorded level-2 history and per-step volumes compared across: two in-process runs of the shipped runner, the documented manual loop driven by the harness's seeded generator, a separate OS process under perturbations (progress bar on, shifted heap, other environment / cwd, stderr null / pipe / file, non-main thread), and (guaranteed-activity configurations) 16 distinct seeds not all equal. Non-trivial = at least 2 steps A runner / manual-loop mismatch is retried with 15 other seedable generators and 0..512 warm-up draws before it is reported; two runner calls on one environment with the environment value moved in memory in between must equal the same calls without the move",
            finalize: None,
            preflight: None,
            nontrivial: nt_ops,
            real: REAL_AGENTS,
            stub: NO_STUB,
            assumptions: &["agent parameters consistent with the environment", "one OS, one build: cross-machine reproducibility is out of reach of a single sandbox", "sampling, not enumeration"],
            explanation: "replay determinism: same seed and parameters must give bit-identical observable output under process-level perturbations",
            expected_probes: &["environment_relocated_between_runner_calls", "in_process_rerun", "manual_loop_with_seam_rng", "separate_process", "progress_bar_branch", "shifted_heap", "non_main_thread", "other_environment", "seeds_differ_checked", "seed_domain_end_checked"],
        },
        CheckSpec {
            id: "C10",
            generate: gen_w3,
            runs_quick: 200_000,
            runs_thorough: 3_000_000,
            rule: "interleavings of submissions and steps on Env<L> / MarketEnv<A,L>, the bulk of the instructions being ones that would trade / cancel / re-price at once if applied directly; the complete observation of the environment (live book, market data, orders, trades, every recorded series, cached level-2 snapshot) is compared before and after every single submission: nothing may change except one appended order with status New; cached level_2_data() equals the live book's at construction and after every step. Non-trivial = at least two steps and three instructions",
            finalize: None,
            preflight: None,
            nontrivial: nt_steps,
            real: REAL_ENV,
            stub: NO_STUB,
            assumptions: &["valid histories as stated in the property", "sampling, not enumeration"],
            explanation: "model-free snapshot comparison around every submission",
            expected_probes: &["steps", "trading_halt", "large_batch_step", "large_batch_step_over_4096", "step_overflow_batch_gt_step_size", "sparse_submission"],
        },
        CheckSpec {
            id: "C11",
            generate: gen_w3,
            runs_quick: 200_000,
            runs_thorough: 3_000_000,
            rule: "step sequences on asymmetric books (bid and ask volumes, counts and depths differ by construction) for every compiled level count, each asset; after step k every recorded series must have k entries, entry k-1 must equal the value read from the live book (bid series <-> bid getters, level i <-> level i), earlier entries must be unchanged, per-step traded volume = sum of the trades appended / time-stamped in the step. Non-trivial = an asymmetric book recorded and >= 2 steps",
            finalize: None,
            preflight: None,
            nontrivial: nt_c11,
            real: REAL_ENV,
            stub: NO_STUB,
            assumptions: &["valid histories as stated in the property; level counts 1,2,3,5,10,16,24 (Env) and 1,3,10 (MarketEnv) are the compiled instantiations", "sampling, not enumeration"],
            explanation: "model-free comparison of recorded series with the live book after every step",
            expected_probes: &["asymmetric_book_recorded", "level_beyond_first_populated", "deepest_level_populated", "step_with_traded_volume_recorded", "large_batch_step", "run_of_1024_plus_steps", "run_traded_volume_over_2_32"],
        },
        CheckSpec {
            id: "C12",
            generate: gen_mixed,
            runs_quick: 300_000,
            runs_thorough: 8_000_000,
            rule: "creation requests with arbitrary prices (on/off grid, extremes) through OrderBook and Market at random points of histories, off-grid re-price as a final operation; create Ok <=> price % tick == 0, full-snapshot equality around rejected creations, dense next id, all order prices on the grid, per-level data accounts for resting volume. Non-trivial = at least one off-grid creation request",
            finalize: None,
            preflight: None,
            nontrivial: nt_c12,
            real: REAL_BOOK,
            stub: NO_STUB,
            assumptions: ASSUME_BOOK,
            explanation: "fault injection of invalid requests with full-snapshot comparison around each",
            expected_probes: &["offgrid_create_request", "offgrid_reprice_request", "crash_restart"],
        },
        CheckSpec {
            id: "C13",
            generate: gen_mixed,
            runs_quick: 300_000,
            runs_thorough: 8_000_000,
            rule: "histories with the trading switch toggled at arbitrary points (also constructed halted), crossing placements and re-prices while halted, aggressors after resuming; reference engine with the flag + model-free clauses (no trade while halted, rejected market orders leave the book untouched, a toggle alone changes nothing). Non-trivial = at least one halt and one trade",
            finalize: None,
            preflight: None,
            nontrivial: nt_c13,
            real: REAL_BOOK,
            stub: NO_STUB,
            assumptions: ASSUME_BOOK,
            explanation: "partition/heal style fault (halt/resume) against the reference engine",
            expected_probes: &["trading_halt", "trading_resume", "market_rejected_while_halted", "crossed_book_state", "book_level_trading_switch", "redundant_trading_switch", "crash_restart"],
        },
        CheckSpec {
            id: "C14",
            generate: gen_mixed,
            runs_quick: 160_000,
            runs_thorough: 4_000_000,
            rule: "Market<A,L> driven directly (A = 1..4, per-asset tick sizes, colliding local ids) and MarketEnv<A,L> driven through shuffled batches across assets; per-asset stand-alone real OrderBooks receive that asset's operations at the same times (environment: the times inferred by the belief-set oracle); every per-asset and all-asset query must equal the twins' values in asset order, an operation on one asset must leave every other asset's observation unchanged. Non-trivial = trades and >= 5 operations (direct) or a step with trades replayed on the stand-alone books (environment)",
            finalize: None,
            preflight: None,
            nontrivial: nt_c14,
            real: REAL_ENV,
            stub: NO_STUB,
            assumptions: &["valid histories as stated in the property", "sampling, not enumeration"],
            explanation: "lock-step twins: the multi-asset object against independent single-asset books",
            expected_probes: &["op_with_trades", "plain_book_replays", "step_with_trades", "large_batch_step", "book_level_trading_switch"],
        },
        CheckSpec {
            id: "C15",
            generate: gen_stat,
            runs_quick: 7_200,
            runs_thorough: 45_000,
            rule: "fully observable batches (every position pinned by an arrival or end timestamp) of sizes 2,3,4,5,6,8,16,32,64; 50 steps per run; deterministic part: two environments given the same generator state and batch size but different instructions (new orders vs. a mix with cancels, other assets, other submission order) must process them in the same positions; statistical part over the whole batch: all n! cells for n<=6, position-by-item and pairwise-order tables for every size, each cell within the exact Bernstein bound with a union bound over all cells (false-alarm probability < 1e-9 per run). Non-trivial: every run",
            finalize: Some(crate::w3stat::finalize),
            preflight: None,
            nontrivial: nt_any,
            real: REAL_ENV,
            stub: NO_STUB,
            assumptions: &["power is finite: at n=6 only gross per-permutation bias is detectable at the quick budget; marginal tables are much sharper", "fresh generator per step and consecutive steps on one generator are both sampled"],
            explanation: "seeded search over schedules: counts of inferred permutations against exact concentration bounds",
            expected_probes: &["content_independence_checked", "fresh_seed_steps", "consecutive_steps_one_generator", "large_batch_statistics"],
        },
        CheckSpec {
            id: "C16",
            generate: gen_w4,
            runs_quick: 80_000,
            runs_thorough: 1_500_000,
            rule: "simulations of the built-in agents in the manual loop, one update call per agent group at a time; the harness reads the instruction queue (verification hook) and the order list before and after every update and checks every created order and every cancellation (grid, range, side of the observed mid-price, volume, trader id, ownership, active when looked at), the deterministic corners of the activity rules (probability 0 / >= 1) and that nothing aborts; generator fault injection (boundary draws 0, all-ones, 1, top bit at sparse indices); tick 1..10, heavy-tailed price distributions (sigma up to 10), empty / one-sided / two-sided starting books, 1..200 steps. Non-trivial = at least 3 agent orders checked Interior probabilities: Bernoulli tallies per (agent kind, action, single/multi-asset, probability quartile) over the whole batch against an exact Bernstein bound (runs without generator fault injection only)",
            finalize: Some(crate::w4agents::finalize_bern),
            preflight: None,
            nontrivial: nt_c16,
            real: REAL_AGENTS,
            stub: NO_STUB,
            assumptions: &["parameterisations consistent with the environment: agent tick size = asset tick size, non-empty tick / volume ranges inside the price domain, finite distribution parameters", "sampling, not enumeration"],
            explanation: "per-update audit of emitted instructions with randomness faults injected through the RngCore seam",
            expected_probes: &["agent_orders_checked", "agent_cancels_checked", "corner_p_ge_1", "corner_p_eq_0", "corner_p_cancel_0_with_live_orders", "corner_p_cancel_1_with_live_orders", "rng_boundary_value", "limit_price_clamped_to_range_end"],
        },
        CheckSpec {
            id: "C17",
            generate: gen_w4,
            runs_quick: 100_000,
            runs_thorough: 1_500_000,
            rule: "one momentum agent group (single- and multi-asset) under mid-price paths imposed by a harness quoting client (rising, falling, mixed, flat; half-tick mids); the harness recomputes M and demand*tanh(scale*M)/n from the mids it observed; direction of every order must follow the sign of M, nothing when M = 0; at saturated demand (|p| >= 1) exactly n market (and, when order_ratio*|p| >= 1, n limit) orders on that side; mirrored run (path mirrored about a grid level, same seed, market orders only) must swap buys and sells step by step. Non-trivial = steps with positive and with negative momentum Interior probabilities: per-step tallies of market / limit orders per direction and probability quartile against an exact Bernstein bound over the whole batch",
            finalize: Some(crate::w4agents::finalize_bern),
            preflight: None,
            nontrivial: nt_c17,
            real: REAL_AGENTS,
            stub: NO_STUB,
            assumptions: &["the harness's recurrence for M is the documented one, evaluated in the same floating-point order", "sampling, not enumeration"],
            explanation: "differential oracle (documented rule at saturation) + mirrored-run symmetry",
            expected_probes: &["step_M_positive", "step_M_negative", "step_M_zero", "saturated_step", "saturated_limit_step", "mirrored_run", "mirrored_step_with_limit_orders", "quotes_moved_by_modify"],
        },
        CheckSpec {
            id: "C18",
            generate: gen_w5,
            runs_quick: 6_000,
            runs_thorough: 150_000,
            rule: "call scripts (5..120 calls) over bourse.core.OrderBook (constructor, set_time, trading switches, place / cancel / modify, every getter, order_status, save_json_snapshot, order_book_from_json) and bourse.core.StepEnv (constructor with seed, place / cancel / modify, step, trading switches, every property and getter) on asymmetric books, executed call by call by the real extension in CPython and by the Rust core; return value or exception class and the complete observation compared after every call; faults: off-grid prices (ValueError), integers outside the target type in every integer position (2^32, 2^64, negative: OverflowError) which must leave the observation unchanged, snapshots written by Python loaded by Rust and vice versa (pretty / compact) and then driven on, a second interpreter under another PYTHONHASHSEED. Non-trivial = >= 5 calls and trades",
            finalize: None,
            preflight: Some(crate::w5::preflight),
            nontrivial: nt_c18,
            real: REAL_PY,
            stub: NO_STUB,
            assumptions: &["one interpreter (CPython 3.11.7) and one numpy; ids passed to the API refer to existing orders (an unknown id aborts inside the extension by design of the Rust API)", "sampling, not enumeration"],
            explanation: "differential lock-step of the Python classes against the Rust core, call by call",
            expected_probes: &["offgrid_price_valueerror", "out_of_range_int_overflowerror", "snapshot_python_to_rust", "snapshot_rust_to_python", "second_pythonhashseed", "object_with_trades", "asymmetric_two_sided_book_at_end"],
        },
        CheckSpec {
            id: "C19",
            generate: gen_w5,
            runs_quick: 6_000,
            runs_thorough: 150_000,
            rule: "StepEnv and StepEnvNumpy driven with the same seeded batches (asymmetric books: bid and ask volumes from disjoint ranges, several populated levels) for 1..8 steps; after every step each element of StepEnv.level_1_data_array / level_2_data_array and StepEnvNumpy.level_1_data / level_2_data is compared with the quantity the documentation assigns to its index (table transcribed by hand), obtained through independent getters of the Rust core; documented lengths 9 and 45; get_market_data of both environments must have exactly the documented keys bound to the matching Rust series; orders_to_dataframe / trades_to_dataframe (real data_processing.py on a stub pandas) must name column k after field k. Non-trivial = >= 3 layout calls on an asymmetric two-sided book",
            finalize: None,
            preflight: Some(crate::w5::preflight),
            nontrivial: nt_c19,
            real: REAL_PY,
            stub: &["pandas (not installable offline): stand-in implementing DataFrame.from_records(columns=), df[col], Series.map, assignment", "tqdm (not installable offline): stand-in for trange"],
            assumptions: &["the documentation tables in rust/src/step_sim.rs, rust/src/step_sim_numpy.rs, base_agent.py and data_processing.py as transcribed into the harness (w5.rs: l1_doc, l2_doc, market_data_doc, df_*_doc)", "the simulation contributes state diversity only: the property is a layout function of the state"],
            explanation: "conformance of array / dictionary / data-frame layouts with the documented tables on diverse asymmetric states",
            expected_probes: &["layout_calls_checked", "asymmetric_two_sided_book_at_end", "deepest_level_populated"],
        },
        CheckSpec {
            id: "C20",
            generate: gen_shape,
            runs_quick: 20_000,
            runs_thorough: 400_000,
            rule: "a generated catalogue of struct shapes (64 per macro; 1..8 fields, four probe agent types with repetitions, fields that are themselves derived sets up to depth 2, field names not in alphabetical order) for #[derive(AgentSet)] and #[derive(MarketAgentSet)] (instantiated for MarketEnv<1,10>, <2,3>, <3,1>); log of the derived update == log of the hand-written sequence == the sequence implied by the declaration order, draw by draw (one continuous generator stream) and order count by order count (one shared environment), over 1..4 calls and random seeds. Non-trivial: every run; distinct = (macro, shape, instantiation, calls) Members draw through next_u64 / next_u32 / fill_bytes in turn; the per-thread trace of RngCore calls is compared; shared generator from a family of 16; a member failing mid-update (caught) in 30 % of the runs",
            finalize: Some(crate::w4probe::finalize),
            preflight: None,
            nontrivial: nt_any,
            real: &["bourse-macros derive expansions compiled by rustc into the simulator (the real proc-macro from /repo/crates/macros)", "bourse-de Env / MarketEnv, Agent / AgentSet traits"],
            stub: &["probe agents (harness-defined agent types that log their calls) instead of the built-in agents"],
            assumptions: &["covers the compiled catalogue only (finite family of programs); thorough additionally compiles a fresh catalogue derived from VERIF_SEED"],
            explanation: "call-by-call and draw-by-draw comparison with the hand-written equivalent over a generated family of struct shapes",
            expected_probes: &["member_failed_mid_update", "generator_other_family_member", "generator_calls_compared", "agent_set", "market_agent_set", "nested_set_shape", "repeated_type_shape", "shape_1_field", "shape_8_fields"],
        },
    ]
}

pub fn find(id: &str) -> Option<CheckSpec> {
    specs().into_iter().find(|s| s.id == id)
}
