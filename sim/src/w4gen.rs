//! Seeded generation of W4 scenarios (agent simulations) for C09, C16, C17.
use crate::rng::SimRng;
use crate::w4::*;

fn gen_random(r: &mut SimRng, asset: usize, centre: u32, corner: bool) -> AgentSpec {
    let n = r.range(1, 12) as usize;
    let half = r.range(2, 60) as u32;
    let lo = centre.saturating_sub(half).max(1);
    let hi = centre + half;
    let vol_lo = r.range(1, 50) as u32;
    let vol_hi = vol_lo + r.range(1, 100) as u32;
    let activity = if corner {
        *r.pick(&[0.0f32, 1.0, 1.5, 0.5, 0.05, 0.9])
    } else {
        (r.range(5, 100) as f32) / 100.0
    };
    AgentSpec::Random { asset, n, tick_lo: lo, tick_hi: hi, vol_lo, vol_hi, activity }
}

/// Random agents whose (non-empty) tick range touches an end of the price domain: tick 0 (an ask drawn there is priced 0,
/// which the book executes as a market order) or - `at_top`, tick sizes > 1 - the highest tick of the grid (priced 2^32-1 where the tick size divides it, just below otherwise).
fn gen_random_edge(r: &mut SimRng, asset: usize, tick: u32, at_top: bool) -> AgentSpec {
    let n = r.range(1, 8) as usize;
    let w = r.range(1, 5) as u32;
    let (lo, hi) = if at_top && tick > 1 {
        let top = u32::MAX / tick;
        (top - w, top + 1)
    } else {
        (0, w + 1)
    };
    let vol_lo = r.range(1, 50) as u32;
    AgentSpec::Random { asset, n, tick_lo: lo, tick_hi: hi, vol_lo, vol_hi: vol_lo + r.range(1, 20) as u32, activity: *r.pick(&[1.0f32, 1.0, 0.9, 1.5]) }
}

fn prob(r: &mut SimRng, corner: bool) -> f32 {
    if corner {
        *r.pick(&[0.0f32, 0.0, 1.0, 1.0, 2.0, 0.3, 0.7, 0.02])
    } else {
        (r.range(0, 100) as f32) / 100.0
    }
}

fn gen_noise(r: &mut SimRng, asset: usize, id_start: u32, corner: bool, heavy: bool) -> AgentSpec {
    let sigma = if heavy { *r.pick(&[10.0f64, 10.0, 5.0, 3.0, 1.0]) } else { (r.range(1, 15) as f64) / 10.0 };
    AgentSpec::Noise {
        asset,
        id_start,
        // (rarely a population beyond 4096 traders: per-agent bookkeeping with fixed capacities)
        n: if corner && r.chance(0.004) { r.range(4090, 5200) as u16 } else { r.range(1, 15) as u16 },
        p_limit: prob(r, corner),
        p_market: prob(r, corner),
        p_cancel: prob(r, corner),
        trade_vol: r.range(1, 100) as u32,
        mu: (r.range(0, 40) as f64) / 10.0,
        sigma,
    }
}

fn gen_momentum(r: &mut SimRng, asset: usize, id_start: u32, corner: bool, heavy: bool) -> AgentSpec {
    let n = r.range(1, 15) as u16;
    let sigma = if heavy { *r.pick(&[10.0f64, 5.0, 2.0, 1.0]) } else { (r.range(1, 15) as f64) / 10.0 };
    AgentSpec::Momentum {
        asset,
        id_start,
        n,
        p_cancel: prob(r, corner),
        trade_vol: r.range(1, 100) as u32,
        decay: *r.pick(&[1.0f64, 0.5, 0.9, 0.1, 0.05]),
        // (demand 0: the documented trade probability is exactly 0 whatever the momentum)
        demand: if corner && r.chance(0.15) { 0.0 } else { (n as f64) * *r.pick(&[0.5f64, 1.0, 5.0, 50.0]) },
        scale: *r.pick(&[0.01f64, 0.1, 0.5, 1.0]),
        order_ratio: *r.pick(&[0.0f64, 0.5, 1.0, 2.0]),
        mu: (r.range(0, 40) as f64) / 10.0,
        sigma,
    }
}

fn base_cfg(r: &mut SimRng, prop: &str, max_steps: u64) -> W4Cfg {
    let market = r.chance(0.4);
    let assets = if market { r.range(1, 3) as usize } else { 1 };
    let ticks: Vec<u32> = (0..assets).map(|_| r.range(1, 10) as u32).collect();
    let n_steps = if r.chance(0.8) { r.range(1, 40.min(max_steps)) } else { r.range(1, max_steps) };
    W4Cfg {
        property: prop.to_string(),
        market,
        assets,
        ticks,
        t0: *r.pick(&[0u64, 17, 1 << 40]),
        step_size: *r.pick(&[1_000u64, 100_000, 1_000_000]),
        trading0: true,
        seed: r.next(),
        n_steps,
        child: None,
        seeds_differ: false,
        path: vec![],
        centre: r.range(200, 100_000) as u32,
        quote_by_modify: false,
        halts: vec![],
        warmup: 1,
        extra_step_every: 0,
        abandoned_first: false,
        small_levels: market && assets == 3 && r.chance(0.4),
        prestep: 0,
    }
}

fn gen_initial(r: &mut SimRng, cfg: &W4Cfg, kind: u64) -> Vec<(usize, bool, u32, u32)> {
    // kind: 0 empty, 1 bids only, 2 asks only, 3 two-sided, 4 asks only on the lowest grid prices, 5 bids only on the highest
    let mut v = vec![];
    if kind >= 4 {
        for a in 0..cfg.assets {
            let tick = cfg.ticks[a];
            let top = (u32::MAX - 1) / tick;
            for k in 1..=r.range(1, 3) as u32 {
                if kind == 4 {
                    v.push((a, false, k * tick, r.range(1, 500) as u32));
                } else {
                    v.push((a, true, (top - k + 1) * tick, r.range(1, 500) as u32));
                }
            }
        }
        return v;
    }
    for a in 0..cfg.assets {
        let tick = cfg.ticks[a];
        for k in 1..=r.range(1, 4) as u32 {
            if kind == 1 || kind == 3 {
                v.push((a, true, (cfg.centre - k) * tick, r.range(1, 500) as u32));
            }
            if kind == 2 || kind == 3 {
                v.push((a, false, (cfg.centre + k) * tick, r.range(1, 500) as u32));
            }
        }
    }
    v
}

fn gen_groups(r: &mut SimRng, cfg: &W4Cfg, corner: bool, heavy: bool) -> Vec<AgentSpec> {
    let k = r.range(1, 6) as usize;
    let mut v = vec![];
    for gi in 0..k {
        let asset = r.usize(cfg.assets);
        let id_start = 1000 * (gi as u32 + 1);
        v.push(match r.below(3) {
            0 => gen_random(r, asset, cfg.centre, corner),
            1 => gen_noise(r, asset, id_start, corner, heavy),
            _ => gen_momentum(r, asset, id_start, corner, heavy),
        });
    }
    v
}

pub fn generate_c09(seed: u64) -> W4Scn {
    let mut r = SimRng::new(seed ^ 0xC09);
    let mut cfg = base_cfg(&mut r, "C09", 200);
    if r.chance(0.04) {
        cfg.n_steps = 0; // the runners must do nothing at all
    }
    // (a third of the runs with the heavy-tailed distance distribution: quotes clamped at the ends of the price range)
    let heavy = r.chance(0.33);
    let agents = gen_groups(&mut r, &cfg, false, heavy);
    cfg.abandoned_first = r.chance(0.3);
    cfg.prestep = *r.pick(&[0u8, 0, 0, 1, 1, 3]);
    // rarely: two large, fully active random populations on different assets (thousands of instructions per step)
    let mut agents = agents;
    if cfg.market && cfg.assets >= 2 && r.chance(0.01) {
        for a in 0..2 {
            agents.insert(0, AgentSpec::Random { asset: a, n: 2600, tick_lo: cfg.centre.saturating_sub(30).max(1), tick_hi: cfg.centre + 30, vol_lo: 1, vol_hi: 40, activity: 1.0 });
        }
        cfg.n_steps = cfg.n_steps.min(3).max(2);
    }
    // rarely: one noise / momentum population that accumulates thousands of live orders of its own and cancels them
    // sparsely (every trader quotes every step, 1 .. 8 % of the live orders are cancelled per step)
    if r.chance(0.004) {
        let asset = r.usize(cfg.assets);
        let n = r.range(450, 900) as u16;
        let p_cancel = (r.range(1, 8) as f32) / 100.0;
        agents.insert(0, AgentSpec::Noise { asset, id_start: 20_000, n, p_limit: 1.0, p_market: 0.0, p_cancel, trade_vol: r.range(1, 20) as u32, mu: 2.0, sigma: 1.0 });
        cfg.n_steps = r.range(10, 16);
    }
    let kind = *r.pick(&[0u64, 3, 3, 3, 1, 2]);
    let initial = gen_initial(&mut r, &cfg, kind);
    // a separate OS process for half of the runs, each with its own perturbation set
    if r.chance(0.5) {
        cfg.child = Some(ChildFlags {
            progress: r.chance(0.6),
            junk_allocs: if r.chance(0.5) { r.range(1, 2000) as usize } else { 0 },
            thread: r.chance(0.3),
            stderr: r.below(3) as u8,
            other_cwd: r.chance(0.5),
            other_env: r.chance(0.5),
        });
    }
    // "different seeds differ" only where activity is guaranteed: a random group that acts every step
    let guaranteed = agents.iter().any(|a| matches!(a, AgentSpec::Random { n, activity, tick_lo, tick_hi, .. } if *n >= 4 && *activity >= 0.9 && tick_hi - tick_lo >= 10)) && cfg.n_steps >= 5;
    cfg.seeds_differ = guaranteed && r.chance(0.3);
    // seed-domain boundary runs: the seed is one of the corner values of the u64 domain (0, the top of the range, the
    // 32-bit and sign boundaries) and a group with guaranteed activity is present, so that the neighbouring seeds
    // (s-1, s+1, wrapping) must give a different run
    if r.chance(0.15) {
        cfg.seed = *r.pick(&[0u64, 0, 1, 2, u64::MAX, u64::MAX, u64::MAX - 1, u64::MAX - 1, (1 << 32) - 1, 1 << 32, (1 << 63) - 1, 1 << 63, u64::MAX - (1 << 32)]);
        if !guaranteed {
            let asset = r.usize(cfg.assets);
            agents.insert(0, AgentSpec::Random { asset, n: 6, tick_lo: cfg.centre.saturating_sub(20).max(1), tick_hi: cfg.centre + 20, vol_lo: 1, vol_hi: 60, activity: 1.0 });
            cfg.n_steps = cfg.n_steps.max(5);
        }
        cfg.seeds_differ = true;
    }
    W4Scn { cfg, agents, initial, inject: vec![] }
}

pub fn generate_c16(seed: u64) -> W4Scn {
    let mut r = SimRng::new(seed ^ 0xC16);
    let mut cfg = base_cfg(&mut r, "C16", 200);
    if r.chance(0.3) {
        // the project's own documentation example: empty book, tick 2, sigma 10
        cfg.centre = r.range(200, 5000) as u32;
    }
    let heavy = r.chance(0.5);
    let mut agents = gen_groups(&mut r, &cfg, true, heavy);
    if r.chance(0.06) {
        // a random group on an end of the price domain, alone or next to the other groups
        let asset = r.usize(cfg.assets);
        let at_top = r.chance(0.4);
        let g = gen_random_edge(&mut r, asset, cfg.ticks[asset], at_top);
        if r.chance(0.5) {
            agents = vec![g];
        } else {
            agents.push(g);
        }
    }
    if agents.iter().any(|a| matches!(a, AgentSpec::Noise { n, .. } | AgentSpec::Momentum { n, .. } if *n > 1000)) {
        // a population of thousands: a few steps are enough (and keep the run affordable)
        cfg.n_steps = cfg.n_steps.min(4).max(2);
    }
    let kind = if r.chance(0.12) { 4 + r.below(2) } else { r.below(4) };
    let mut initial = gen_initial(&mut r, &cfg, kind);
    if kind < 4 && r.chance(0.06) {
        // whale resting orders far from the touch: each side stays below 2^32, the two sides together reach or pass it
        for a in 0..cfg.assets {
            let tick = cfg.ticks[a];
            let (vb, va) = *r.pick(&[(1u32 << 31, 1u32 << 31), (3_000_000_000, 2_000_000_000), (1 << 31, (1 << 31) + 5)]);
            initial.push((a, true, (cfg.centre - 150) * tick, vb));
            initial.push((a, false, (cfg.centre + 150) * tick, va));
        }
    }
    if r.chance(0.12) && cfg.n_steps >= 3 {
        // a trading halt in the middle of the run: the agents keep quoting, the book may cross
        let from = r.below(cfg.n_steps - 1);
        let to = from + 1 + r.below(10);
        cfg.halts.push((from, to));
    }
    let mut inject = vec![];
    if r.chance(0.5) {
        // sparse, never adjacent: rejection samplers always terminate
        let horizon = 40 * cfg.n_steps.max(1) * agents.len() as u64;
        let k = r.range(1, 12);
        let mut at = 0u64;
        for _ in 0..k {
            at += 2 + r.below(horizon / k + 2);
            inject.push((at, r.below(4) as u8));
        }
    }
    W4Scn { cfg, agents, initial, inject }
}

pub fn generate_c17(seed: u64) -> W4Scn {
    let mut r = SimRng::new(seed ^ 0xC17);
    let mut cfg = base_cfg(&mut r, "C17", 60);
    cfg.centre = r.range(1_000, 1_000_000) as u32;
    let asset = r.usize(cfg.assets);
    let n = r.range(1, 20) as u16;
    // three regimes: far saturated, just above the saturation threshold for a one-tick move (sensitive to the scale of M),
    // and unsaturated (direction clauses only)
    let regime = r.below(10);
    let saturated = regime < 5;
    let tick_a = cfg.ticks[asset] as f64;
    let (demand, scale) = if saturated {
        ((n as f64) * *r.pick(&[1e6f64, 1e9, 1e12]), *r.pick(&[1.0f64, 10.0, 1000.0]))
    } else if regime < 8 {
        // tanh(scale * M) ~ 0.96 for |M| = one tick (half a tick: 0.76): p just above 1 for whole-tick moves
        ((n as f64) * *r.pick(&[1.05f64, 1.1, 1.3]), 2.0 / tick_a)
    } else {
        ((n as f64) * *r.pick(&[0.5f64, 1.0, 3.0, 20.0]), *r.pick(&[0.01f64, 0.1, 1.0]))
    };
    // (the documented probability is the absolute value |demand * tanh(scale * M)| / n: the sign of either setting must not matter)
    let (demand, scale) = match r.below(16) {
        0 => (-demand, scale),
        1 => (demand, -scale),
        2 => (-demand, -scale),
        _ => (demand, scale),
    };
    let order_ratio = *r.pick(&[0.0f64, 0.0, 1.0, 2.0, 0.5]);
    // heavy-tailed limit-price distances (the documentation's sigma = 10) at a low price level: distances beyond the
    // mid-price (buy quotes clamped at 0) and beyond the top of the range (sell quotes clamped) both occur
    let sigma = *r.pick(&[0.5f64, 0.5, 0.5, 3.0, 10.0]);
    if sigma > 1.0 {
        cfg.centre = r.range(1_000, 5_000) as u32;
    }
    let style = r.below(5);
    let decay = if style == 4 { 0.5 } else { *r.pick(&[1.0f64, 1.0, 0.5, 0.9, 0.25]) };
    let spec = AgentSpec::Momentum {
        asset,
        id_start: 100,
        n,
        p_cancel: *r.pick(&[0.0f32, 1.0, 0.3]),
        trade_vol: r.range(1, 50) as u32,
        decay,
        demand,
        scale,
        order_ratio,
        mu: (r.range(0, 20) as f64) / 10.0,
        sigma,
    };
    // imposed mid-price path: rising, falling, mixed, flat segments (offsets in ticks, optional half tick)
    let len = r.range(4, 60) as usize;
    let mut path = vec![];
    let mut off: i32 = 0;
    for k in 0..len {
        let d: i32 = match style {
            // rise two, fall one, flat, flat ...: with decay 1/2 the momentum cancels to exactly zero
            4 => match k % 5 {
                1 => 2,
                2 => -1,
                _ => 0,
            },
            0 => r.range(0, 3) as i32,
            1 => -(r.range(0, 3) as i32),
            2 => r.range(0, 6) as i32 - 3,
            _ => {
                if r.chance(0.7) {
                    0
                } else {
                    r.range(0, 4) as i32 - 2
                }
            }
        };
        off = (off + d).clamp(-400, 400);
        path.push((off, style != 4 && r.chance(0.3)));
    }
    // very rarely the same agent object first sees a long flat history (about 2^16 updates at one price, nothing to do)
    // before the path starts to move: whatever an agent remembers or counts per update must survive that many updates
    if r.chance(0.00004) {
        let flat = 65_530 + r.below(12) as usize;
        let first = path.first().copied().unwrap_or((0, false));
        let mut long = vec![first; flat];
        long.extend(path);
        path = long;
    }
    cfg.path = path;
    cfg.quote_by_modify = r.chance(0.35);
    cfg.warmup = *r.pick(&[1u8, 1, 1, 2, 3]);
    if len >= 6 && r.chance(0.15) {
        let from = r.range(1, len as u64 - 3);
        cfg.halts.push((from, from + 1 + r.below(3)));
    }
    cfg.extra_step_every = *r.pick(&[0u8, 0, 0, 0, 2, 3, 5]);
    cfg.n_steps = len as u64;
    W4Scn { cfg, agents: vec![spec], initial: vec![], inject: vec![] }
}

pub fn generate(prop: &str, seed: u64) -> W4Scn {
    match prop {
        "C16" => generate_c16(seed),
        "C17" => generate_c17(seed),
        _ => generate_c09(seed),
    }
}
