//! Complete observable snapshots of a book / environment, structural comparison and digests.
use serde::{Deserialize, Serialize};

pub const PMAX: u32 = u32::MAX;
pub const TMAX: u64 = u64::MAX;

pub const NEW: u8 = 0;
pub const ACTIVE: u8 = 1;
pub const FILLED: u8 = 2;
pub const CANCELLED: u8 = 3;
pub const REJECTED: u8 = 4;

#[derive(Clone, Copy, PartialEq, Eq, Debug, Serialize, Deserialize, Hash)]
pub struct OOrder {
    pub bid: bool,
    pub status: u8,
    pub arr: u64,
    pub end: u64,
    pub vol: u32,
    pub start_vol: u32,
    pub price: u32,
    pub trader: u32,
    pub id: usize,
}

#[derive(Clone, Copy, PartialEq, Eq, Debug, Serialize, Deserialize, Hash)]
pub struct OTrade {
    pub t: u64,
    pub bid: bool,
    pub price: u32,
    pub vol: u32,
    pub active: usize,
    pub passive: usize,
}

pub type Lv = (u32, u32);

#[derive(Clone, PartialEq, Debug, Serialize, Deserialize)]
pub struct L1 {
    pub bid_price: u32,
    pub ask_price: u32,
    pub bid_vol: u32,
    pub ask_vol: u32,
    pub bid_touch_vol: u32,
    pub ask_touch_vol: u32,
    pub bid_touch_orders: u32,
    pub ask_touch_orders: u32,
}

#[derive(Clone, PartialEq, Debug, Serialize, Deserialize, Default)]
pub struct L2 {
    pub bid_price: u32,
    pub ask_price: u32,
    pub bid_vol: u32,
    pub ask_vol: u32,
    pub bid_levels: Vec<Lv>,
    pub ask_levels: Vec<Lv>,
}

/// Everything a caller can read from one book.
#[derive(Clone, PartialEq, Debug, Serialize, Deserialize)]
pub struct BookObs {
    pub t: u64,
    pub trade_vol: u32,
    pub bid_ask: (u32, u32),
    pub bid_vol: u32,
    pub ask_vol: u32,
    pub bid_best_vol: u32,
    pub ask_best_vol: u32,
    pub bid_best: Lv,
    pub ask_best: Lv,
    pub bid_levels: Vec<Lv>,
    pub ask_levels: Vec<Lv>,
    pub l1: L1,
    pub l2: L2,
    pub orders: Vec<OOrder>,
    pub trades: Vec<OTrade>,
    /// only taken where a property speaks about it (C02)
    pub mid: Option<f64>,
}

macro_rules! cmp_field {
    ($a:expr, $b:expr, $($f:ident),*) => {
        $( if $a.$f != $b.$f { return Some((stringify!($f).to_string(), format!("{:?}", $a.$f), format!("{:?}", $b.$f))); } )*
    };
}

impl BookObs {
    /// First differing field: (field, self value, other value)
    pub fn diff(&self, o: &BookObs) -> Option<(String, String, String)> {
        cmp_field!(self, o, t, trade_vol, bid_ask, bid_vol, ask_vol, bid_best_vol, ask_best_vol, bid_best, ask_best);
        cmp_field!(self, o, bid_levels, ask_levels, l1, l2);
        if self.orders.len() != o.orders.len() {
            return Some(("orders.len".into(), self.orders.len().to_string(), o.orders.len().to_string()));
        }
        for (i, (a, b)) in self.orders.iter().zip(o.orders.iter()).enumerate() {
            if a != b {
                return Some((format!("orders[{}]", i), format!("{:?}", a), format!("{:?}", b)));
            }
        }
        if self.trades.len() != o.trades.len() {
            return Some(("trades.len".into(), self.trades.len().to_string(), o.trades.len().to_string()));
        }
        for (i, (a, b)) in self.trades.iter().zip(o.trades.iter()).enumerate() {
            if a != b {
                return Some((format!("trades[{}]", i), format!("{:?}", a), format!("{:?}", b)));
            }
        }
        match (self.mid, o.mid) {
            (Some(a), Some(b)) if a.to_bits() != b.to_bits() => {
                return Some(("mid".into(), format!("{:?}", a), format!("{:?}", b)))
            }
            _ => {}
        }
        None
    }

    /// Same as `diff` but ignoring the clock reading itself.
    pub fn diff_except_time(&self, o: &BookObs) -> Option<(String, String, String)> {
        let mut a = self.clone();
        a.t = o.t;
        a.diff(o)
    }

    pub fn digest(&self) -> u64 {
        let mut h = Fnv::new();
        h.u64(self.t);
        h.u64(self.trade_vol as u64);
        h.u64(self.bid_ask.0 as u64);
        h.u64(self.bid_ask.1 as u64);
        h.u64(self.bid_vol as u64);
        h.u64(self.ask_vol as u64);
        for l in self.bid_levels.iter().chain(self.ask_levels.iter()) {
            h.u64(l.0 as u64);
            h.u64(l.1 as u64);
        }
        for o in &self.orders {
            h.order(o);
        }
        for t in &self.trades {
            h.trade(t);
        }
        h.0
    }

    /// Digest of the *shape* of the book state that ignores absolute time and ids of finished orders:
    /// used for the distinct-state counters.
    pub fn state_digest(&self) -> u64 {
        let mut h = Fnv::new();
        for o in &self.orders {
            if o.status == ACTIVE || o.status == NEW {
                h.u64(o.bid as u64);
                h.u64(o.status as u64);
                h.u64(o.vol as u64);
                h.u64(o.price as u64);
                h.u64(o.id as u64);
            }
        }
        h.u64(self.trades.len() as u64);
        h.u64(self.bid_ask.0 as u64);
        h.u64(self.bid_ask.1 as u64);
        h.0
    }
}

pub struct Fnv(pub u64);
impl Fnv {
    pub fn new() -> Self {
        Fnv(0xcbf2_9ce4_8422_2325)
    }
    pub fn u64(&mut self, v: u64) {
        for b in v.to_le_bytes() {
            self.0 ^= b as u64;
            self.0 = self.0.wrapping_mul(0x0000_0100_0000_01B3);
        }
    }
    pub fn bytes(&mut self, bs: &[u8]) {
        for b in bs {
            self.0 ^= *b as u64;
            self.0 = self.0.wrapping_mul(0x0000_0100_0000_01B3);
        }
    }
    pub fn order(&mut self, o: &OOrder) {
        self.u64(o.bid as u64);
        self.u64(o.status as u64);
        self.u64(o.arr);
        self.u64(o.end);
        self.u64(o.vol as u64);
        self.u64(o.start_vol as u64);
        self.u64(o.price as u64);
        self.u64(o.trader as u64);
        self.u64(o.id as u64);
    }
    pub fn trade(&mut self, t: &OTrade) {
        self.u64(t.t);
        self.u64(t.bid as u64);
        self.u64(t.price as u64);
        self.u64(t.vol as u64);
        self.u64(t.active as u64);
        self.u64(t.passive as u64);
    }
}

/// Recorded histories of one asset of an environment.
#[derive(Clone, PartialEq, Debug, Serialize, Deserialize, Default)]
pub struct HistObs {
    pub prices: (Vec<u32>, Vec<u32>),
    pub volumes: (Vec<u32>, Vec<u32>),
    pub touch_volumes: (Vec<u32>, Vec<u32>),
    pub touch_counts: (Vec<u32>, Vec<u32>),
    pub trade_vols: Vec<u32>,
    /// [level] -> series, (bid, ask)
    pub vol_levels: (Vec<Vec<u32>>, Vec<Vec<u32>>),
    pub cnt_levels: (Vec<Vec<u32>>, Vec<Vec<u32>>),
}

impl HistObs {
    pub fn diff(&self, o: &HistObs) -> Option<(String, String, String)> {
        cmp_field!(self, o, prices, volumes, touch_volumes, touch_counts, trade_vols, vol_levels, cnt_levels);
        None
    }
    pub fn digest(&self) -> u64 {
        let mut h = Fnv::new();
        let mut v = |xs: &Vec<u32>| {
            h.u64(xs.len() as u64);
            for x in xs {
                h.u64(*x as u64)
            }
        };
        v(&self.prices.0);
        v(&self.prices.1);
        v(&self.volumes.0);
        v(&self.volumes.1);
        v(&self.touch_volumes.0);
        v(&self.touch_volumes.1);
        v(&self.touch_counts.0);
        v(&self.touch_counts.1);
        v(&self.trade_vols);
        for s in self.vol_levels.0.iter().chain(self.vol_levels.1.iter()).chain(self.cnt_levels.0.iter()).chain(self.cnt_levels.1.iter()) {
            v(s);
        }
        h.0
    }
}

/// Everything observable from one asset of an environment.
#[derive(Clone, PartialEq, Debug, Serialize, Deserialize)]
pub struct EnvAssetObs {
    pub book: BookObs,
    pub cached_l2: L2,
    pub hist: HistObs,
}

impl EnvAssetObs {
    pub fn diff(&self, o: &EnvAssetObs) -> Option<(String, String, String)> {
        if let Some(d) = self.book.diff(&o.book) {
            return Some((format!("book.{}", d.0), d.1, d.2));
        }
        if self.cached_l2 != o.cached_l2 {
            return Some(("cached_l2".into(), format!("{:?}", self.cached_l2), format!("{:?}", o.cached_l2)));
        }
        if let Some(d) = self.hist.diff(&o.hist) {
            return Some((format!("hist.{}", d.0), d.1, d.2));
        }
        None
    }
}
