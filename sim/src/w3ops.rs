//! W3: operations, configuration and scenario of the environment world (`Env<L>` / `MarketEnv<A,L>`).
use serde::{Deserialize, Serialize};

#[derive(Clone, Debug, Serialize, Deserialize, PartialEq)]
pub enum EnvOp {
    /// env.place_order (creates the order record, queues `Event::New`)
    New { a: usize, bid: bool, vol: u32, trader: u32, price: Option<u32> },
    /// env.cancel_order; `ord` = creation ordinal on asset `a`
    Cancel { a: usize, ord: usize },
    Modify { a: usize, ord: usize, price: Option<u32>, vol: Option<u32> },
    /// env.step(rng). `perm`: target arrangement for the steered shuffle (`perm[k]` = submission index of the
    /// instruction to be processed at position k); `None` = the unsteered Xoroshiro128** stream.
    Step { perm: Option<Vec<usize>> },
    Trading { on: bool },
}

pub mod w3mon {
    /// schedule inference + belief set + direct clauses of C08
    pub const BELIEF: u32 = 1 << 0;
    /// nothing visible between submission and step (C10)
    pub const INVISIBLE: u32 = 1 << 1;
    /// recorded histories (C11)
    pub const RECORDS: u32 = 1 << 2;
    /// real plain order books replayed with the inferred schedule (C08 last clause, C14)
    pub const SHADOW: u32 = 1 << 3;
    /// creation on/off grid through the environment (C12)
    pub const GRID: u32 = 1 << 4;
    /// no trade while halted (C13)
    pub const HALT: u32 = 1 << 5;
    /// classify FIFO divergences with the key-collision twin (C05)
    pub const TIE_CLASSIFY: u32 = 1 << 6;
    /// after every step the live book of each asset is serialised and reloaded: it must load and equal the live book
    pub const BOOKSNAP: u32 = 1 << 7;
}

#[derive(Clone, Debug, Serialize, Deserialize, PartialEq)]
pub struct W3Cfg {
    pub property: String,
    pub market: bool,
    pub assets: usize,
    pub levels: usize,
    pub ticks: Vec<u32>,
    pub t0: u64,
    pub step_size: u64,
    pub trading0: bool,
    pub monitors: u32,
    /// seed of the Xoroshiro128** generator handed to `step` (the schedule when not steered)
    pub rng_seed: u64,
    /// off-grid creation / re-price requests are part of the workload (C12)
    pub allow_offgrid: bool,
    /// batches may exceed `step_size` (C05 overflow clause); otherwise such a step is an invalid request
    pub allow_overflow: bool,
    /// C11 marathon: the scenario is this many steps on one environment (almost all idle), audited sparsely (0 = ordinary run)
    #[serde(default)]
    pub marathon: u64,
}

#[derive(Clone, Debug, Serialize, Deserialize, PartialEq)]
pub struct W3Scn {
    pub cfg: W3Cfg,
    pub ops: Vec<EnvOp>,
}
