//! Object-safe adapters over the real bourse types (all const-generic instantiations the simulator uses).
//! Nothing here re-implements behaviour: every method is a direct call into `/repo`'s crates.
use crate::obs::*;
use crate::rng::SeamRng;
use bourse_book::types::{Event, Level2Data, Order, Side, Status, Trade};
use bourse_book::{Market, OrderBook};
use bourse_de::{Env, Level2DataRecords, MarketEnv};

pub fn side(bid: bool) -> Side {
    if bid {
        Side::Bid
    } else {
        Side::Ask
    }
}
pub fn side_is_bid(s: Side) -> bool {
    matches!(s, Side::Bid)
}
pub fn status_code(s: Status) -> u8 {
    // spelled out from the documentation (0 New, 1 Active, 2 Filled, 3 Cancelled, 4 Rejected), not via From<Status>
    match s {
        Status::New => NEW,
        Status::Active => ACTIVE,
        Status::Filled => FILLED,
        Status::Cancelled => CANCELLED,
        Status::Rejected => REJECTED,
    }
}
pub fn conv_order(o: &Order) -> OOrder {
    OOrder {
        bid: side_is_bid(o.side),
        status: status_code(o.status),
        arr: o.arr_time,
        end: o.end_time,
        vol: o.vol,
        start_vol: o.start_vol,
        price: o.price,
        trader: o.trader_id,
        id: o.order_id,
    }
}
pub fn conv_trade(t: &Trade) -> OTrade {
    OTrade { t: t.t, bid: side_is_bid(t.side), price: t.price, vol: t.vol, active: t.active_order_id, passive: t.passive_order_id }
}
pub fn conv_l2<const L: usize>(d: &Level2Data<L>) -> L2 {
    L2 {
        bid_price: d.bid_price,
        ask_price: d.ask_price,
        bid_vol: d.bid_vol,
        ask_vol: d.ask_vol,
        bid_levels: d.bid_price_levels.to_vec(),
        ask_levels: d.ask_price_levels.to_vec(),
    }
}

pub fn book_obs<const L: usize>(b: &OrderBook<L>, with_mid: bool) -> BookObs {
    let l1 = b.level_1_data();
    let l2 = b.level_2_data();
    BookObs {
        t: b.get_time(),
        trade_vol: b.get_trade_vol(),
        bid_ask: b.bid_ask(),
        bid_vol: b.bid_vol(),
        ask_vol: b.ask_vol(),
        bid_best_vol: b.bid_best_vol(),
        ask_best_vol: b.ask_best_vol(),
        bid_best: b.bid_best_vol_and_orders(),
        ask_best: b.ask_best_vol_and_orders(),
        bid_levels: b.bid_levels().to_vec(),
        ask_levels: b.ask_levels().to_vec(),
        l1: L1 {
            bid_price: l1.bid_price,
            ask_price: l1.ask_price,
            bid_vol: l1.bid_vol,
            ask_vol: l1.ask_vol,
            bid_touch_vol: l1.bid_touch_vol,
            ask_touch_vol: l1.ask_touch_vol,
            bid_touch_orders: l1.bid_touch_orders,
            ask_touch_orders: l1.ask_touch_orders,
        },
        l2: conv_l2(&l2),
        orders: b.get_orders().into_iter().map(conv_order).collect(),
        trades: b.get_trades().iter().map(conv_trade).collect(),
        mid: if with_mid { Some(b.mid_price()) } else { None },
    }
}

#[derive(Clone, Copy, PartialEq, Eq, Debug, serde::Serialize, serde::Deserialize)]
pub enum EvKind {
    New,
    Cancel,
    Modify,
}

/// All-asset queries of a `Market` (asset order), for C14.
#[derive(Clone, PartialEq, Debug, Default)]
pub struct MarketAgg {
    pub trade_vols: Vec<u32>,
    pub bid_vols: Vec<u32>,
    pub bid_best_vols: Vec<u32>,
    pub bid_best: Vec<Lv>,
    pub bid_levels: Vec<Vec<Lv>>,
    pub ask_vols: Vec<u32>,
    pub ask_best_vols: Vec<u32>,
    pub ask_best: Vec<Lv>,
    pub ask_levels: Vec<Vec<Lv>>,
    pub bid_asks: Vec<(u32, u32)>,
    pub l2: Vec<L2>,
}

/// A single order book or a multi-asset market (real code).
pub trait Mkt {
    fn is_market(&self) -> bool;
    fn assets(&self) -> usize;
    fn levels(&self) -> usize;
    fn time(&self) -> u64;
    fn set_time(&mut self, t: u64);
    fn enable_trading(&mut self);
    fn disable_trading(&mut self);
    /// trading switch of one asset's book only (`Market::get_order_book_mut(a)`)
    fn set_trading_asset(&mut self, a: usize, on: bool);
    fn reset_trade_vols(&mut self);
    fn create(&mut self, a: usize, bid: bool, vol: u32, trader: u32, price: Option<u32>) -> Result<(usize, usize), String>;
    fn create_and_place(&mut self, a: usize, bid: bool, vol: u32, trader: u32, price: Option<u32>) -> Result<(usize, usize), String>;
    fn place(&mut self, a: usize, id: usize);
    fn cancel(&mut self, a: usize, id: usize);
    fn modify(&mut self, a: usize, id: usize, p: Option<u32>, v: Option<u32>);
    fn event(&mut self, a: usize, k: EvKind, id: usize, p: Option<u32>, v: Option<u32>);
    fn obs(&self, a: usize, with_mid: bool) -> BookObs;
    fn order(&self, a: usize, id: usize) -> OOrder;
    fn agg(&self) -> Option<MarketAgg>;
    fn to_json(&self, pretty: bool) -> String;
    fn save(&self, path: &str, pretty: bool) -> Result<(), String>;
}

impl<const L: usize> Mkt for OrderBook<L> {
    fn is_market(&self) -> bool {
        false
    }
    fn assets(&self) -> usize {
        1
    }
    fn levels(&self) -> usize {
        L
    }
    fn time(&self) -> u64 {
        self.get_time()
    }
    fn set_time(&mut self, t: u64) {
        let _ = OrderBook::set_time(self, t);
    }
    fn enable_trading(&mut self) {
        let _ = OrderBook::enable_trading(self);
    }
    fn disable_trading(&mut self) {
        let _ = OrderBook::disable_trading(self);
    }
    fn set_trading_asset(&mut self, _a: usize, on: bool) {
        if on {
            OrderBook::enable_trading(self)
        } else {
            OrderBook::disable_trading(self)
        }
    }
    fn reset_trade_vols(&mut self) {
        let _ = self.reset_trade_vol();
    }
    fn create(&mut self, _a: usize, bid: bool, vol: u32, trader: u32, price: Option<u32>) -> Result<(usize, usize), String> {
        self.create_order(side(bid), vol, trader, price).map(|i| (0, i)).map_err(|e| e.to_string())
    }
    fn create_and_place(&mut self, _a: usize, bid: bool, vol: u32, trader: u32, price: Option<u32>) -> Result<(usize, usize), String> {
        self.create_and_place_order(side(bid), vol, trader, price).map(|i| (0, i)).map_err(|e| e.to_string())
    }
    fn place(&mut self, _a: usize, id: usize) {
        let _ = self.place_order(id);
    }
    fn cancel(&mut self, _a: usize, id: usize) {
        let _ = self.cancel_order(id);
    }
    fn modify(&mut self, _a: usize, id: usize, p: Option<u32>, v: Option<u32>) {
        let _ = self.modify_order(id, p, v);
    }
    fn event(&mut self, _a: usize, k: EvKind, id: usize, p: Option<u32>, v: Option<u32>) {
        let _ = self.process_event(match k {
            EvKind::New => Event::New { order_id: id },
            EvKind::Cancel => Event::Cancellation { order_id: id },
            EvKind::Modify => Event::Modify { order_id: id, new_price: p, new_vol: v },
        });
    }
    fn obs(&self, _a: usize, with_mid: bool) -> BookObs {
        book_obs(self, with_mid)
    }
    fn order(&self, _a: usize, id: usize) -> OOrder {
        conv_order(OrderBook::order(self, id))
    }
    fn agg(&self) -> Option<MarketAgg> {
        None
    }
    fn to_json(&self, pretty: bool) -> String {
        if pretty {
            serde_json::to_string_pretty(self).unwrap()
        } else {
            serde_json::to_string(self).unwrap()
        }
    }
    fn save(&self, path: &str, pretty: bool) -> Result<(), String> {
        self.save_json(path, pretty).map_err(|e| e.to_string())
    }
}

impl<const A: usize, const L: usize> Mkt for Market<A, L> {
    fn is_market(&self) -> bool {
        true
    }
    fn assets(&self) -> usize {
        A
    }
    fn levels(&self) -> usize {
        L
    }
    fn time(&self) -> u64 {
        self.get_time()
    }
    fn set_time(&mut self, t: u64) {
        let _ = Market::set_time(self, t);
    }
    fn enable_trading(&mut self) {
        let _ = Market::enable_trading(self);
    }
    fn disable_trading(&mut self) {
        let _ = Market::disable_trading(self);
    }
    fn set_trading_asset(&mut self, a: usize, on: bool) {
        let b = self.get_order_book_mut(a);
        if on {
            let _ = b.enable_trading();
        } else {
            let _ = b.disable_trading();
        }
    }
    fn reset_trade_vols(&mut self) {
        let _ = Market::reset_trade_vols(self);
    }
    fn create(&mut self, a: usize, bid: bool, vol: u32, trader: u32, price: Option<u32>) -> Result<(usize, usize), String> {
        self.create_order(a, side(bid), vol, trader, price).map_err(|e| e.to_string())
    }
    fn create_and_place(&mut self, a: usize, bid: bool, vol: u32, trader: u32, price: Option<u32>) -> Result<(usize, usize), String> {
        self.create_and_place_order(a, side(bid), vol, trader, price).map_err(|e| e.to_string())
    }
    fn place(&mut self, a: usize, id: usize) {
        let _ = self.place_order((a, id));
    }
    fn cancel(&mut self, a: usize, id: usize) {
        let _ = self.cancel_order((a, id));
    }
    fn modify(&mut self, a: usize, id: usize, p: Option<u32>, v: Option<u32>) {
        let _ = self.modify_order((a, id), p, v);
    }
    fn event(&mut self, a: usize, k: EvKind, id: usize, p: Option<u32>, v: Option<u32>) {
        let _ = self.process_event(match k {
            EvKind::New => Event::New { order_id: (a, id) },
            EvKind::Cancel => Event::Cancellation { order_id: (a, id) },
            EvKind::Modify => Event::Modify { order_id: (a, id), new_price: p, new_vol: v },
        });
    }
    fn obs(&self, a: usize, with_mid: bool) -> BookObs {
        let mut o = book_obs(self.get_order_book(a), with_mid);
        // the market-level accessor for orders must agree with the book-level one; use it as the source here
        o.orders = self.get_orders(a).into_iter().map(conv_order).collect();
        o
    }
    fn order(&self, a: usize, id: usize) -> OOrder {
        conv_order(Market::order(self, (a, id)))
    }
    fn agg(&self) -> Option<MarketAgg> {
        Some(MarketAgg {
            trade_vols: self.get_trade_vols().to_vec(),
            bid_vols: self.bid_vols().to_vec(),
            bid_best_vols: self.bid_best_vols().to_vec(),
            bid_best: self.bid_best_vol_and_orders().to_vec(),
            bid_levels: self.bid_levels().iter().map(|x| x.to_vec()).collect(),
            ask_vols: self.ask_vols().to_vec(),
            ask_best_vols: self.ask_best_vols().to_vec(),
            ask_best: self.ask_best_vol_and_orders().to_vec(),
            ask_levels: self.ask_levels().iter().map(|x| x.to_vec()).collect(),
            bid_asks: self.bid_asks().to_vec(),
            l2: self.level_2_data().iter().map(conv_l2).collect(),
        })
    }
    fn to_json(&self, pretty: bool) -> String {
        if pretty {
            serde_json::to_string_pretty(self).unwrap()
        } else {
            serde_json::to_string(self).unwrap()
        }
    }
    fn save(&self, path: &str, pretty: bool) -> Result<(), String> {
        self.save_json(path, pretty).map_err(|e| e.to_string())
    }
}

pub const BOOK_LEVELS: [usize; 24] = [1, 2, 3, 4, 5, 6, 7, 8, 9, 10, 11, 12, 13, 14, 15, 16, 17, 18, 19, 20, 21, 22, 23, 24];
pub const MARKET_LEVELS: [usize; 4] = [1, 3, 10, 24];
pub const ENV_LEVELS: [usize; 7] = [1, 2, 3, 5, 10, 16, 24];
pub const MENV_LEVELS: [usize; 3] = [1, 3, 10];

macro_rules! dispatch_l {
    ($l:expr, [$($n:literal),*], |$c:ident| $body:expr) => {
        match $l { $( $n => { const $c: usize = $n; $body } )* other => panic!("unsupported level count {}", other) }
    };
}
macro_rules! dispatch_al {
    ($a:expr, $l:expr, [$($an:literal),*], $ls:tt, |$ca:ident, $cl:ident| $body:expr) => {
        match $a { $( $an => { const $ca: usize = $an; dispatch_l!($l, $ls, |$cl| $body) } )* other => panic!("unsupported asset count {}", other) }
    };
}

pub fn new_book(levels: usize, t: u64, tick: u32, trading: bool) -> Box<dyn Mkt> {
    dispatch_l!(levels, [1, 2, 3, 4, 5, 6, 7, 8, 9, 10, 11, 12, 13, 14, 15, 16, 17, 18, 19, 20, 21, 22, 23, 24], |LL| Box::new(
        OrderBook::<LL>::new(t, tick, trading)
    ))
}
pub fn book_from_json(levels: usize, s: &str) -> Result<Box<dyn Mkt>, String> {
    dispatch_l!(levels, [1, 2, 3, 4, 5, 6, 7, 8, 9, 10, 11, 12, 13, 14, 15, 16, 17, 18, 19, 20, 21, 22, 23, 24], |LL| serde_json::from_str::<
        OrderBook<LL>,
    >(s)
    .map(|b| Box::new(b) as Box<dyn Mkt>)
    .map_err(|e| e.to_string()))
}
pub fn book_load(levels: usize, path: &str) -> Result<Box<dyn Mkt>, String> {
    dispatch_l!(levels, [1, 2, 3, 4, 5, 6, 7, 8, 9, 10, 11, 12, 13, 14, 15, 16, 17, 18, 19, 20, 21, 22, 23, 24], |LL| OrderBook::<LL>::load_json(
        path
    )
    .map(|b| Box::new(b) as Box<dyn Mkt>)
    .map_err(|e| e.to_string()))
}

fn arr<const A: usize>(t: &[u32]) -> [u32; A] {
    core::array::from_fn(|i| t[i])
}

pub fn new_market(assets: usize, levels: usize, t: u64, ticks: &[u32], trading: bool) -> Box<dyn Mkt> {
    dispatch_al!(assets, levels, [1, 2, 3, 4, 12], [1, 3, 10, 24], |AA, LL| Box::new(Market::<AA, LL>::new(t, arr::<AA>(ticks), trading)))
}
pub fn market_from_json(assets: usize, levels: usize, s: &str) -> Result<Box<dyn Mkt>, String> {
    dispatch_al!(assets, levels, [1, 2, 3, 4, 12], [1, 3, 10, 24], |AA, LL| serde_json::from_str::<Market<AA, LL>>(s)
        .map(|b| Box::new(b) as Box<dyn Mkt>)
        .map_err(|e| e.to_string()))
}
pub fn market_load(assets: usize, levels: usize, path: &str) -> Result<Box<dyn Mkt>, String> {
    dispatch_al!(assets, levels, [1, 2, 3, 4, 12], [1, 3, 10, 24], |AA, LL| Market::<AA, LL>::load_json(path)
        .map(|b| Box::new(b) as Box<dyn Mkt>)
        .map_err(|e| e.to_string()))
}

/// `market == false` -> a plain `OrderBook<levels>`; `true` -> `Market<assets, levels>`.
pub fn new_mkt(market: bool, assets: usize, levels: usize, t: u64, ticks: &[u32], trading: bool) -> Box<dyn Mkt> {
    if market {
        new_market(assets, levels, t, ticks, trading)
    } else {
        new_book(levels, t, ticks[0], trading)
    }
}
pub fn mkt_from_json(market: bool, assets: usize, levels: usize, s: &str) -> Result<Box<dyn Mkt>, String> {
    if market {
        market_from_json(assets, levels, s)
    } else {
        book_from_json(levels, s)
    }
}
pub fn mkt_load(market: bool, assets: usize, levels: usize, path: &str) -> Result<Box<dyn Mkt>, String> {
    if market {
        market_load(assets, levels, path)
    } else {
        book_load(levels, path)
    }
}

// ---------------------------------------------------------------------------------------------
// Environments
// ---------------------------------------------------------------------------------------------

pub fn conv_hist<const L: usize>(r: &Level2DataRecords<L>, touch_v: (&Vec<u32>, &Vec<u32>), touch_c: (&Vec<u32>, &Vec<u32>), tv: &[u32]) -> HistObs {
    HistObs {
        prices: r.prices.clone(),
        volumes: r.volumes.clone(),
        touch_volumes: (touch_v.0.clone(), touch_v.1.clone()),
        touch_counts: (touch_c.0.clone(), touch_c.1.clone()),
        trade_vols: tv.to_vec(),
        vol_levels: (r.volumes_at_levels.0.to_vec(), r.volumes_at_levels.1.to_vec()),
        cnt_levels: (r.orders_at_levels.0.to_vec(), r.orders_at_levels.1.to_vec()),
    }
}

/// `Env<L>` or `MarketEnv<A, L>` (real code).
pub trait EnvLike {
    fn is_market(&self) -> bool;
    fn assets(&self) -> usize;
    fn levels(&self) -> usize;
    fn step(&mut self, rng: &mut SeamRng);
    fn enable_trading(&mut self);
    fn disable_trading(&mut self);
    fn place(&mut self, a: usize, bid: bool, vol: u32, trader: u32, price: Option<u32>) -> Result<(usize, usize), String>;
    fn cancel(&mut self, a: usize, id: usize);
    fn modify(&mut self, a: usize, id: usize, p: Option<u32>, v: Option<u32>);
    fn time(&self) -> u64;
    fn obs(&self, a: usize) -> EnvAssetObs;
    fn book_obs(&self, a: usize) -> BookObs;
    /// JSON snapshot of one asset's live book (the book of an environment is an ordinary serialisable OrderBook)
    fn book_json(&self, a: usize) -> String;
    fn status(&self, a: usize, id: usize) -> u8;
    fn order(&self, a: usize, id: usize) -> OOrder;
    /// Env-level accessors that duplicate book-level ones (get_orders / get_trades through the env)
    fn env_orders(&self, a: usize) -> Vec<OOrder>;
    fn env_trades(&self, a: usize) -> Vec<OTrade>;
    fn n_orders(&self, a: usize) -> usize;
    /// number of queued instructions (verification hook, feature `verif`)
    fn n_queued(&self) -> usize;
}

impl<const L: usize> EnvLike for Env<L> {
    fn is_market(&self) -> bool {
        false
    }
    fn assets(&self) -> usize {
        1
    }
    fn levels(&self) -> usize {
        L
    }
    fn step(&mut self, rng: &mut SeamRng) {
        let _ = Env::step(self, rng);
    }
    fn enable_trading(&mut self) {
        let _ = Env::enable_trading(self);
    }
    fn disable_trading(&mut self) {
        let _ = Env::disable_trading(self);
    }
    fn place(&mut self, _a: usize, bid: bool, vol: u32, trader: u32, price: Option<u32>) -> Result<(usize, usize), String> {
        self.place_order(side(bid), vol, trader, price).map(|i| (0, i)).map_err(|e| e.to_string())
    }
    fn cancel(&mut self, _a: usize, id: usize) {
        let _ = self.cancel_order(id);
    }
    fn modify(&mut self, _a: usize, id: usize, p: Option<u32>, v: Option<u32>) {
        let _ = self.modify_order(id, p, v);
    }
    fn time(&self) -> u64 {
        self.get_orderbook().get_time()
    }
    fn obs(&self, _a: usize) -> EnvAssetObs {
        EnvAssetObs {
            book: book_obs(self.get_orderbook(), false),
            cached_l2: conv_l2(self.level_2_data()),
            hist: conv_hist(self.get_level_2_data_history(), self.get_touch_volumes(), self.get_touch_order_counts(), self.get_trade_vols()),
        }
    }
    fn book_json(&self, _a: usize) -> String {
        serde_json::to_string(self.get_orderbook()).unwrap_or_default()
    }
    fn book_obs(&self, _a: usize) -> BookObs {
        book_obs(self.get_orderbook(), false)
    }
    fn status(&self, _a: usize, id: usize) -> u8 {
        status_code(self.order_status(id))
    }
    fn order(&self, _a: usize, id: usize) -> OOrder {
        conv_order(Env::order(self, id))
    }
    fn env_orders(&self, _a: usize) -> Vec<OOrder> {
        self.get_orders().into_iter().map(conv_order).collect()
    }
    fn env_trades(&self, _a: usize) -> Vec<OTrade> {
        self.get_trades().iter().map(conv_trade).collect()
    }
    fn n_orders(&self, _a: usize) -> usize {
        self.get_orders().len()
    }
    fn n_queued(&self) -> usize {
        self.verif_queued().len()
    }
}

impl<const A: usize, const L: usize> EnvLike for MarketEnv<A, L> {
    fn is_market(&self) -> bool {
        true
    }
    fn assets(&self) -> usize {
        A
    }
    fn levels(&self) -> usize {
        L
    }
    fn step(&mut self, rng: &mut SeamRng) {
        let _ = MarketEnv::step(self, rng);
    }
    fn enable_trading(&mut self) {
        let _ = MarketEnv::enable_trading(self);
    }
    fn disable_trading(&mut self) {
        let _ = MarketEnv::disable_trading(self);
    }
    fn place(&mut self, a: usize, bid: bool, vol: u32, trader: u32, price: Option<u32>) -> Result<(usize, usize), String> {
        self.place_order(a, side(bid), vol, trader, price).map_err(|e| e.to_string())
    }
    fn cancel(&mut self, a: usize, id: usize) {
        let _ = self.cancel_order((a, id));
    }
    fn modify(&mut self, a: usize, id: usize, p: Option<u32>, v: Option<u32>) {
        let _ = self.modify_order((a, id), p, v);
    }
    fn time(&self) -> u64 {
        self.get_market().get_time()
    }
    fn obs(&self, a: usize) -> EnvAssetObs {
        EnvAssetObs {
            book: book_obs(self.get_market().get_order_book(a), false),
            cached_l2: conv_l2(&self.level_2_data()[a]),
            hist: conv_hist(self.get_level_2_data_history(a), self.get_touch_volumes(a), self.get_touch_order_counts(a), self.get_trade_vols(a)),
        }
    }
    fn book_json(&self, a: usize) -> String {
        serde_json::to_string(self.get_market().get_order_book(a)).unwrap_or_default()
    }
    fn book_obs(&self, a: usize) -> BookObs {
        book_obs(self.get_market().get_order_book(a), false)
    }
    fn status(&self, a: usize, id: usize) -> u8 {
        status_code(self.order_status((a, id)))
    }
    fn order(&self, a: usize, id: usize) -> OOrder {
        conv_order(MarketEnv::order(self, (a, id)))
    }
    fn env_orders(&self, a: usize) -> Vec<OOrder> {
        self.get_orders(a).into_iter().map(conv_order).collect()
    }
    fn env_trades(&self, a: usize) -> Vec<OTrade> {
        self.get_trades(a).iter().map(conv_trade).collect()
    }
    fn n_orders(&self, a: usize) -> usize {
        self.get_orders(a).len()
    }
    fn n_queued(&self) -> usize {
        self.verif_queued().len()
    }
}

pub fn new_env(market: bool, assets: usize, levels: usize, t: u64, ticks: &[u32], step: u64, trading: bool) -> Box<dyn EnvLike> {
    if market {
        dispatch_al!(assets, levels, [1, 2, 3, 4, 12], [1, 3, 10], |AA, LL| Box::new(MarketEnv::<AA, LL>::new(t, arr::<AA>(ticks), step, trading)))
    } else {
        dispatch_l!(levels, [1, 2, 3, 5, 10, 16, 24], |LL| Box::new(Env::<LL>::new(t, ticks[0], step, trading)))
    }
}
