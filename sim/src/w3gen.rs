//! Seeded generation of W3 scenarios: batches of interacting instructions, steered / unsteered schedules,
//! trading halts, step-size overflow (C05), off-grid requests (C12). The generator keeps its own
//! reference-engine simulation of the *intended* schedule only to produce meaningful workloads; the oracle
//! never relies on it.
use crate::api::{ENV_LEVELS, MENV_LEVELS};
use crate::model::{Model, Tie};
use crate::obs::*;
use crate::rng::{SeamRng, SimRng};
use crate::w1gen::make_alphabet;
use crate::w3exec::{apply_instr, Instr, MAX_FREE};
use crate::w3ops::*;
use rand::seq::SliceRandom;

#[derive(Clone, Debug)]
pub struct Profile3 {
    pub monitors: u32,
    pub market_share: f64,
    pub force_market: bool,
    pub overflow: bool,
    pub offgrid: f64,
    pub toggle: f64,
    pub start_halted: f64,
    pub always_steer: bool,
    pub asym: bool,
    pub max_steps: u64,
    pub max_batch: u64,
    pub drain: bool,
    /// share of runs in which one step receives a large batch (hundreds to thousands of instructions)
    pub big_batch: f64,
    /// share of runs with hundreds to thousands of (mostly idle or tiny) steps: recorded histories, counters and
    /// anything else that accumulates per step
    pub long_run: f64,
}

pub fn profile3(prop: &str) -> Profile3 {
    use w3mon::*;
    let base = Profile3 {
        monitors: BELIEF | SHADOW,
        market_share: 0.4,
        force_market: false,
        overflow: false,
        offgrid: 0.0,
        toggle: 0.04,
        start_halted: 0.05,
        always_steer: false,
        asym: false,
        max_steps: 30,
        max_batch: 12,
        drain: true,
        big_batch: 0.0,
        long_run: 0.0,
    };
    match prop {
        "C08" => Profile3 { big_batch: 0.004, long_run: 0.001, ..base },
        "C10" => Profile3 { monitors: INVISIBLE, toggle: 0.08, start_halted: 0.1, big_batch: 0.006, long_run: 0.002, ..base },
        "C11" => Profile3 { monitors: RECORDS, asym: true, toggle: 0.02, big_batch: 0.004, long_run: 0.004, ..base },
        // per-asset environment-level queries too: cached level-2 snapshot and recorded histories of every asset
        "C14" => Profile3 { monitors: BELIEF | SHADOW | RECORDS | INVISIBLE, force_market: true, market_share: 1.0, asym: true, big_batch: 0.003, long_run: 0.002, ..base },
        "C05" => Profile3 { monitors: BELIEF | TIE_CLASSIFY | BOOKSNAP, overflow: true, always_steer: true, market_share: 0.25, toggle: 0.0, start_halted: 0.0, max_steps: 12, ..base },
        "C12" => Profile3 { monitors: GRID | INVISIBLE, offgrid: 0.25, drain: false, ..base },
        "C13" => Profile3 { monitors: BELIEF | HALT, toggle: 0.35, start_halted: 0.4, ..base },
        _ => base,
    }
}

struct Gen3<'a> {
    r: &'a mut SimRng,
    p: &'a Profile3,
    cfg: W3Cfg,
    alph: Vec<Vec<u32>>,
    ms: Vec<Model>,
    /// ordinal -> id is the identity for dense ids; kept explicit for clarity
    n_orders: Vec<usize>,
    pending: Vec<Instr>,
    ops: Vec<EnvOp>,
    gen_rng: SeamRng,
    vol_kind: u8,
    /// cap on the queue length of the step being filled
    max_pending: usize,
    /// outstanding volume per asset (the executor's validity rule, mirrored so that the generator's own model stays valid)
    budget: Vec<u64>,
}

impl<'a> Gen3<'a> {
    fn n_free(&self) -> usize {
        self.pending.iter().filter(|i| !matches!(i, Instr::New { .. })).count()
    }
    fn room(&self) -> bool {
        self.pending.len() < self.max_pending && (self.cfg.allow_overflow || (self.pending.len() as u64) < self.cfg.step_size)
    }
    fn asset(&mut self) -> usize {
        self.r.usize(self.cfg.assets)
    }
    fn vol(&mut self, bid: bool) -> u32 {
        let v = match self.vol_kind {
            0 => self.r.range(1, 2) as u32,
            1 => self.r.range(1, 10) as u32,
            2 => self.r.range(1, 100_000) as u32,
            // whales: a handful of these exhaust the 2^32 bound on outstanding volume; over several steps the traded
            // volume of the run exceeds it
            _ => self.r.range(1 << 26, 1 << 30) as u32,
        };
        if self.p.asym && !bid {
            v * 3 + 7
        } else {
            v
        }
    }
    fn price(&mut self, a: usize, bid: bool, passive: f64) -> u32 {
        let al = &self.alph[a];
        let n = al.len();
        if self.r.chance(passive) {
            let half = n / 2;
            if bid {
                al[self.r.usize(half.max(1))]
            } else {
                al[half + self.r.usize(n - half)]
            }
        } else {
            al[self.r.usize(n)]
        }
    }
    fn new_order(&mut self, a: usize, bid: bool, vol: u32, price: Option<u32>) -> Option<usize> {
        if !self.room() || self.budget[a] + vol as u64 > PMAX as u64 {
            return None;
        }
        self.budget[a] += vol as u64;
        let trader = if self.r.chance(0.05) { u32::MAX - self.r.below(3) as u32 } else { self.r.below(6) as u32 };
        self.ops.push(EnvOp::New { a, bid, vol, trader, price });
        match self.ms[a].create(bid, vol, trader, price) {
            Ok(id) => {
                self.pending.push(Instr::New { a, id });
                self.n_orders[a] += 1;
                Some(id)
            }
            Err(_) => None,
        }
    }
    fn cancel(&mut self, a: usize, ord: usize) {
        if !self.room() || self.n_free() >= MAX_FREE {
            return;
        }
        self.ops.push(EnvOp::Cancel { a, ord });
        self.pending.push(Instr::Cancel { a, id: ord });
    }
    fn modify(&mut self, a: usize, ord: usize, price: Option<u32>, vol: Option<u32>) {
        if !self.room() || self.n_free() >= MAX_FREE || vol.map(|v| v == 0 || self.budget[a] + v as u64 > PMAX as u64).unwrap_or(false) {
            return;
        }
        if let Some(v) = vol {
            self.budget[a] += v as u64;
        }
        self.ops.push(EnvOp::Modify { a, ord, price, vol });
        self.pending.push(Instr::Modify { a, id: ord, p: price, v: vol });
    }
    fn pick_status(&mut self, a: usize, st: u8) -> Option<usize> {
        let c: Vec<usize> = self.ms[a].orders.iter().filter(|o| o.o.status == st).map(|o| o.o.id).collect();
        if c.is_empty() {
            None
        } else {
            Some(c[self.r.usize(c.len())])
        }
    }
    fn any_order(&mut self, a: usize) -> Option<usize> {
        if self.n_orders[a] == 0 {
            None
        } else {
            Some(self.r.usize(self.n_orders[a]))
        }
    }

    fn maker(&mut self) {
        let a = self.asset();
        let bid = self.r.chance(0.5);
        let p = self.price(a, bid, 0.8);
        let v = self.vol(bid);
        self.new_order(a, bid, v, Some(p));
    }
    fn taker(&mut self) {
        let a = self.asset();
        let bid = self.r.chance(0.5);
        let q = self.ms[a].queue(!bid);
        let v = if q.is_empty() {
            self.vol(bid)
        } else {
            let head = self.ms[a].orders[q[0]].o.vol as u64;
            let tot: u64 = q.iter().map(|i| self.ms[a].orders[*i].o.vol as u64).sum();
            let v = match self.r.below(5) {
                0 if head > 1 => self.r.range(1, head - 1),
                1 => head,
                2 => head + 1,
                3 => tot,
                _ => tot + 1 + self.r.below(3),
            };
            v.clamp(1, 1 << 30) as u32
        };
        let price = if self.r.chance(0.4) {
            None
        } else {
            Some(self.price(a, bid, 0.0))
        };
        self.new_order(a, bid, v, price);
    }
    fn canceller(&mut self) {
        let a = self.asset();
        let ord = if self.r.chance(0.75) { self.pick_status(a, ACTIVE) } else { None }.or_else(|| self.any_order(a));
        if let Some(o) = ord {
            self.cancel(a, o);
            if self.r.chance(0.15) {
                self.cancel(a, o); // duplicate
            }
        }
    }
    fn modifier(&mut self) {
        let a = self.asset();
        let ord = if self.r.chance(0.8) { self.pick_status(a, ACTIVE) } else { None }.or_else(|| self.any_order(a));
        let ord = match ord {
            Some(o) => o,
            None => return,
        };
        let cur = self.ms[a].orders[ord].o;
        let price = match self.r.below(10) {
            0..=4 => None,
            5 => Some(cur.price).filter(|p| *p != 0 && *p != PMAX),
            _ => Some(self.price(a, cur.bid, 0.3)),
        };
        let vol = match self.r.below(8) {
            0 | 1 => None,
            2..=4 => Some(if cur.vol > 1 { self.r.range(1, cur.vol as u64 - 1) as u32 } else { 1 }),
            5 => Some(cur.vol.max(1)),
            _ => Some(cur.vol.saturating_add(self.r.range(1, 5) as u32).max(1)),
        };
        self.modify(a, ord, price, vol);
    }
    /// a new order together with instructions aimed at it inside the same batch
    fn same_step_target(&mut self) {
        let a = self.asset();
        let bid = self.r.chance(0.5);
        let p = self.price(a, bid, 0.5);
        let v = self.vol(bid);
        if let Some(id) = self.new_order(a, bid, v, Some(p)) {
            match self.r.below(4) {
                0 => self.cancel(a, id),
                1 => {
                    let np = self.price(a, bid, 0.0);
                    self.modify(a, id, Some(np), None)
                }
                2 => {
                    self.modify(a, id, None, Some(v.saturating_add(1)));
                    self.cancel(a, id)
                }
                _ => {
                    self.cancel(a, id);
                    let np = self.price(a, bid, 0.0);
                    self.modify(a, id, Some(np), Some(v))
                }
            }
        }
    }
    /// resting order R, an aggressor that partially fills it, and a modify / cancel of R in one batch
    fn modify_vs_fill(&mut self) {
        let a = self.asset();
        let r = match self.pick_status(a, ACTIVE) {
            Some(r) => r,
            None => return self.maker(),
        };
        let cur = self.ms[a].orders[r].o;
        if cur.vol == 0 {
            return;
        }
        let v = if cur.vol > 1 { self.r.range(1, cur.vol as u64 - 1) as u32 } else { 1 };
        // aggressor on the other side priced to reach R
        self.new_order(a, !cur.bid, v, Some(cur.price));
        match self.r.below(4) {
            0 => self.cancel(a, r),
            1 => self.modify(a, r, None, Some(cur.vol.saturating_sub(1).max(1))),
            2 => self.modify(a, r, None, Some(cur.vol.saturating_add(2))),
            _ => {
                let np = self.price(a, cur.bid, 0.5);
                self.modify(a, r, Some(np), None)
            }
        }
        if self.r.chance(0.4) {
            // a second aggressor competing for the same resting order
            let v2 = self.r.range(1, cur.vol as u64) as u32;
            let pr = if self.r.chance(0.5) { None } else { Some(cur.price) };
            self.new_order(a, !cur.bid, v2, pr);
        }
    }
    fn offgrid_new(&mut self) {
        let a = self.asset();
        let tick = self.cfg.ticks[a];
        let bid = self.r.chance(0.5);
        let base = self.price(a, bid, 0.3);
        let price = match self.r.below(5) {
            0 => base,
            1 => base.saturating_add(1).min(PMAX - 1),
            2 => base.saturating_sub(1).max(1),
            3 => self.r.range(1, (PMAX - 1) as u64) as u32,
            _ => 1 + self.r.below((tick as u64 * 3).max(2)) as u32,
        };
        let v = self.vol(bid);
        self.new_order(a, bid, v, Some(price));
    }

    fn step(&mut self, force_steer: bool) {
        let n = self.pending.len();
        let start = self.ms[0].t;
        let steer = force_steer || self.p.always_steer || self.r.chance(0.65);
        let order: Vec<usize> = if steer {
            let mut v: Vec<usize> = (0..n).collect();
            match self.r.below(20) {
                0..=2 => {}
                3..=5 => v.reverse(),
                6 | 7 => {
                    if n > 0 {
                        let k = self.r.usize(n);
                        v.rotate_left(k);
                    }
                }
                8..=10 => {
                    // cancels / modifies first (before the placement of their own target)
                    let (mut free, mut news): (Vec<usize>, Vec<usize>) = (0..n).partition(|k| !matches!(self.pending[*k], Instr::New { .. }));
                    self.r.shuffle(&mut free);
                    self.r.shuffle(&mut news);
                    free.extend(news);
                    v = free;
                }
                _ => self.r.shuffle(&mut v),
            }
            v
        } else {
            let mut v: Vec<usize> = (0..n).collect();
            v.shuffle(&mut self.gen_rng);
            v
        };
        self.ops.push(EnvOp::Step { perm: if steer { Some(order.clone()) } else { None } });
        for m in self.ms.iter_mut() {
            m.reset_trade_vol();
        }
        for (i, k) in order.iter().enumerate() {
            for m in self.ms.iter_mut() {
                m.set_time(start + i as u64);
            }
            let ins = self.pending[*k].clone();
            apply_instr(&mut self.ms, &ins);
        }
        for m in self.ms.iter_mut() {
            m.set_time(start + self.cfg.step_size);
        }
        for (a, m) in self.ms.iter().enumerate() {
            let out: u64 = m.orders.iter().filter(|o| o.o.status == NEW || o.o.status == ACTIVE).map(|o| o.o.vol as u64).sum();
            if out < self.budget[a] {
                self.budget[a] = out;
            }
        }
        self.pending.clear();
    }
}

pub fn generate(prop: &str, seed: u64) -> W3Scn {
    generate_t(prop, seed, false)
}

/// `thorough`: additionally allows batches of 65536 instructions (about a second per run; too slow for the quick tier)
pub fn generate_t(prop: &str, seed: u64, thorough: bool) -> W3Scn {
    let mut p = profile3(prop);
    let mut r = SimRng::new(seed ^ 0x5733_5733);
    if prop == "C10" && r.chance(0.12) {
        // oversized steps (batch > step size) are valid for C10: nothing may become visible early, and the snapshot handed
        // to agents must equal the live book after every step, whatever happened to the surplus
        p.overflow = true;
        p.max_steps = 12;
    }
    if prop == "C13" && r.chance(0.1) {
        // oversized steps while the trading switch is toggled between steps (surplus instructions must not survive a step)
        p.overflow = true;
        p.always_steer = true;
        p.max_steps = 12;
    }
    if prop == "C14" && r.chance(0.2) {
        // the shared clock under oversized steps (batch > step size): intra-step stamps run into the next step
        p.overflow = true;
        p.always_steer = true;
        p.max_steps = 12;
    }
    let market = p.force_market || r.chance(p.market_share);
    let assets = if market {
        if r.chance(0.04) {
            12
        } else if p.force_market {
            r.range(2, 4) as usize
        } else {
            r.range(1, 4) as usize
        }
    } else {
        1
    };
    let levels = if market { *r.pick(&MENV_LEVELS) } else { *r.pick(&ENV_LEVELS) };
    let ticks: Vec<u32> = (0..assets).map(|_| r.range(1, 10) as u32).collect();
    let narrow = r.chance(0.5);
    // histories / per-asset records: half of the runs use a deep alphabet so that every published level gets populated
    let deep = p.asym && r.chance(0.5);
    let alph: Vec<Vec<u32>> = ticks.iter().map(|t| make_alphabet(&mut r, *t, if deep { 3 } else if narrow { 0 } else { 1 })).collect();
    let vol_kind = if narrow { r.range(0, 1) as u8 } else if r.chance(0.06) { 3 } else { r.range(0, 2) as u8 };
    // large-batch runs: one step of the run receives hundreds to thousands of instructions (sizes around powers of two
    // are favoured: buffers, chunked processing and capacity limits live there)
    let mut big_pure = false;
    let big: Option<usize> = if !p.overflow && p.big_batch > 0.0 && r.chance(p.big_batch) {
        // (65536 = the wrap-around of a 16-bit counter; rare, it costs about a second per run)
        let base = *r.pick(&[128u64, 256, 256, 512, 1024, 1024, 2048, 4096, 4096, 4096, 8192, 65536]);
        let base = if base >= 65536 && !thorough { 8192 } else { base };
        // "pure" large batches consist of placements only, so that the number of *effective* instructions is exactly the
        // batch size
        big_pure = r.chance(0.5);
        Some(match r.below(4) {
            0 => base - 1,
            1 => base,
            2 => base + 1 + r.below(3),
            _ => {
                if base >= 65536 {
                    base
                } else {
                    r.range(100, 6000)
                }
            }
        } as usize)
    } else {
        None
    };
    // small step sizes make "batch size == step size" (the upper bound the valid histories allow) a common case
    let step_size = if let Some(b) = big {
        if r.chance(0.3) {
            b as u64 + r.below(2)
        } else {
            *r.pick(&[1_000_000u64, 1_000_000_000])
        }
    } else if p.overflow {
        r.range(1, 4)
    } else if r.chance(0.3) {
        r.range(1, 12)
    } else {
        *r.pick(&[16u64, 64, 1000, 1_000_000, 1_000_000_000])
    };
    let t0 = match r.below(4) {
        0 => 0,
        1 => r.below(1000),
        2 => r.below(1 << 40),
        _ => (1u64 << 60) + r.below(1 << 59),
    };
    let trading0 = !r.chance(p.start_halted);
    let cfg = W3Cfg {
        property: prop.to_string(),
        market,
        assets,
        levels,
        ticks,
        t0,
        step_size,
        trading0,
        monitors: p.monitors,
        rng_seed: r.next(),
        allow_offgrid: p.offgrid > 0.0,
        allow_overflow: p.overflow,
        marathon: 0,
    };
    let ms: Vec<Model> = (0..assets).map(|a| Model::new(t0, cfg.ticks[a], trading0, Tie::Fifo)).collect();
    let long = !p.overflow && big.is_none() && p.long_run > 0.0 && r.chance(p.long_run);
    let n_steps = if long {
        let base = *r.pick(&[256u64, 512, 1024, 1024, 2048]);
        base - 2 + r.below(5)
    } else if r.chance(0.75) {
        r.range(1, 8)
    } else {
        r.range(9, p.max_steps)
    };
    let gen_rng = SeamRng::passthrough(cfg.rng_seed);
    let mut g = Gen3 { r: &mut r, p: &p, cfg: cfg.clone(), alph, ms, n_orders: vec![0; assets], pending: vec![], ops: vec![], gen_rng, vol_kind, max_pending: 64, budget: vec![0; assets] };
    let mut trading = trading0;
    let n_steps = if big.is_some() { n_steps.min(5) } else { n_steps };
    let big_step = big.map(|_| g.r.below(n_steps));
    for step_i in 0..n_steps {
        if g.r.chance(p.toggle) {
            // (a fifth of the requests are redundant: the switch is a flag, not a counter)
            if g.r.chance(0.8) {
                trading = !trading;
            }
            g.ops.push(EnvOp::Trading { on: trading });
            for m in g.ms.iter_mut() {
                if trading {
                    m.enable_trading()
                } else {
                    m.disable_trading()
                }
            }
        }
        let is_big = big_step == Some(step_i);
        let nb = if is_big {
            big.unwrap_or(0)
        } else if long {
            (match g.r.below(20) {
                0..=11 => 0,
                12..=17 => g.r.range(1, 2),
                _ => g.r.range(3, 6),
            }) as usize
        } else {
            (match g.r.below(20) {
                0 => 0,
                1 | 2 => 1,
                3..=14 => g.r.range(2, 6),
                _ => g.r.range(7, p.max_batch),
            }) as usize
        };
        g.max_pending = if is_big { nb } else { 64 };
        let mut guard = 0;
        while g.pending.len() < nb && guard < 4 * nb + 4 {
            guard += 1;
            if is_big && (big_pure || g.r.chance(0.85)) {
                // the bulk of a large batch: passive orders (and a few takers), so that the book stays meaningful
                if g.r.chance(0.9) {
                    g.maker()
                } else {
                    g.taker()
                }
                continue;
            }
            if p.offgrid > 0.0 && g.r.chance(p.offgrid) {
                g.offgrid_new();
                continue;
            }
            match g.r.weighted(&[30, 22, 10, 12, 10, 12]) {
                0 => g.maker(),
                1 => g.taker(),
                2 => g.canceller(),
                3 => g.modifier(),
                4 => g.same_step_target(),
                _ => g.modify_vs_fill(),
            }
        }
        // submissions may be interleaved with a toggle (flag applies to the whole step)
        if g.r.chance(p.toggle * 0.5) {
            if g.r.chance(0.8) {
                trading = !trading;
            }
            g.ops.push(EnvOp::Trading { on: trading });
            for m in g.ms.iter_mut() {
                if trading {
                    m.enable_trading()
                } else {
                    m.disable_trading()
                }
            }
        }
        g.step(false);
    }
    if p.drain {
        // final probe: with trading enabled, a market order for the whole opposite volume on each side
        if !trading {
            g.ops.push(EnvOp::Trading { on: true });
            for m in g.ms.iter_mut() {
                m.enable_trading();
            }
        }
        for a in 0..assets {
            for bid in [true, false] {
                let tot: u64 = g.ms[a].queue(!bid).iter().map(|i| g.ms[a].orders[*i].o.vol as u64).sum();
                if tot > 0 && tot < PMAX as u64 / 2 {
                    g.new_order(a, bid, tot as u32, None);
                }
            }
        }
        g.step(true);
    }
    let ops = std::mem::take(&mut g.ops);
    let mut cfg = cfg;
    // C11, very rarely: a marathon - more than 2^20 steps on one environment (see w3exec::marathon)
    if prop == "C11" && g.r.chance(0.00005) && (!cfg.market || (cfg.levels <= 3 && cfg.assets <= 2)) {
        cfg.marathon = (1 << 20) + g.r.range(1, 40);
        cfg.levels = if cfg.market { cfg.levels } else { *g.r.pick(&[1usize, 2, 3]) };
    }
    W3Scn { cfg, ops }
}
