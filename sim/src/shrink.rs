//! Minimisation: ddmin over the explicit operation list, then per-operation simplification,
//! always requiring the same violation class (and signature).
use crate::core::Violation;
use crate::scenario::Scenario;
use crate::w1ops::*;
use std::time::{Duration, Instant};

fn same(a: &Violation, b: &Violation) -> bool {
    a.class == b.class && a.site == b.site && a.property == b.property
}

pub fn shrink(scn: &Scenario, v: &Violation, run_dir: &str, budget: Duration) -> (Scenario, Violation) {
    let start = Instant::now();
    let mut cur = scn.clone();
    let mut curv = v.clone();
    let test = |s: &Scenario| -> Option<Violation> {
        let out = s.execute(run_dir);
        out.violation.filter(|x| same(x, v))
    };
    // drop everything after the violating operation first
    if curv.op_index + 1 < cur.len() {
        let keep: Vec<bool> = (0..cur.len()).map(|i| i <= curv.op_index).collect();
        let c = cur.filtered(&keep);
        if let Some(nv) = test(&c) {
            cur = c;
            curv = nv;
        }
    }
    // ddmin
    let mut n = 2usize;
    while cur.len() >= 2 && start.elapsed() < budget {
        let len = cur.len();
        let chunk = len.div_ceil(n);
        let mut reduced = false;
        let mut i = 0;
        while i < len {
            if start.elapsed() >= budget {
                break;
            }
            let keep: Vec<bool> = (0..len).map(|k| !(k >= i && k < i + chunk)).collect();
            let c = cur.filtered(&keep);
            if c.len() < len {
                if let Some(nv) = test(&c) {
                    cur = c;
                    curv = nv;
                    n = (n - 1).max(2);
                    reduced = true;
                    break;
                }
            }
            i += chunk;
        }
        if !reduced {
            if chunk <= 1 {
                break;
            }
            n = (n * 2).min(len);
        }
    }
    // simplification passes to a fixed point
    let mut progress = true;
    while progress && start.elapsed() < budget {
        progress = false;
        for c in cur.simplifications() {
            if start.elapsed() >= budget {
                break;
            }
            if let Some(nv) = test(&c) {
                cur = c;
                curv = nv;
                progress = true;
                break;
            }
        }
    }
    (cur, curv)
}

pub fn w1_simplifications(s: &W1Scn) -> Vec<W1Scn> {
    let mut out = vec![];
    let mut push = |i: usize, op: Op| {
        if s.ops[i] != op {
            let mut n = s.clone();
            n.ops[i] = op;
            out.push(n);
        }
    };
    for (i, op) in s.ops.iter().enumerate() {
        match op {
            Op::Tick { dt } => {
                if *dt > 1 {
                    push(i, Op::Tick { dt: 1 });
                }
            }
            Op::Create { a, bid, vol, trader, price } => {
                if *vol > 1 {
                    push(i, Op::Create { a: *a, bid: *bid, vol: 1, trader: *trader, price: *price });
                    push(i, Op::Create { a: *a, bid: *bid, vol: vol / 2, trader: *trader, price: *price });
                }
                if *trader != 0 {
                    push(i, Op::Create { a: *a, bid: *bid, vol: *vol, trader: 0, price: *price });
                }
            }
            Op::CreatePlace { a, bid, vol, trader, price } => {
                if *vol > 1 {
                    push(i, Op::CreatePlace { a: *a, bid: *bid, vol: 1, trader: *trader, price: *price });
                    push(i, Op::CreatePlace { a: *a, bid: *bid, vol: vol / 2, trader: *trader, price: *price });
                }
                if *trader != 0 {
                    push(i, Op::CreatePlace { a: *a, bid: *bid, vol: *vol, trader: 0, price: *price });
                }
            }
            Op::Event { a, kind, ord, price, vol } => {
                let plain = match kind {
                    crate::api::EvKind::New => Op::Place { a: *a, ord: *ord },
                    crate::api::EvKind::Cancel => Op::Cancel { a: *a, ord: *ord },
                    crate::api::EvKind::Modify => Op::Modify { a: *a, ord: *ord, price: *price, vol: *vol },
                };
                push(i, plain);
            }
            Op::Snapshot { how, into_levels, keep, truncate } => {
                if *how != 0 && !*truncate {
                    push(i, Op::Snapshot { how: 0, into_levels: *into_levels, keep: *keep, truncate: false });
                }
                if *into_levels != s.cfg.levels {
                    push(i, Op::Snapshot { how: *how, into_levels: s.cfg.levels, keep: *keep, truncate: *truncate });
                }
            }
            _ => {}
        }
    }
    // configuration simplifications
    if s.cfg.t0 != 0 {
        let mut n = s.clone();
        n.cfg.t0 = 0;
        out.push(n);
    }
    if !s.cfg.market && s.cfg.levels != 3 {
        let mut n = s.clone();
        n.cfg.levels = 3;
        out.push(n);
    }
    out
}

/// Remove list elements; orders are referenced by creation ordinal, so removing a creation drops its
/// dependants and renumbers the later references (heuristic: a creation yields an ordinal iff its price is
/// on the grid — exactness is not needed, the candidate is re-executed anyway).
pub fn w1_filtered(s: &W1Scn, keep: &[bool]) -> W1Scn {
    let assets = s.cfg.assets;
    let mut next_old = vec![0usize; assets];
    let mut next_new = vec![0usize; assets];
    let mut map: Vec<Vec<Option<usize>>> = vec![vec![]; assets];
    let mut out = vec![];
    for (op, k) in s.ops.iter().zip(keep.iter()) {
        let creates = match op {
            Op::Create { a, vol, price, .. } | Op::CreatePlace { a, vol, price, .. } => {
                if *a < assets && *vol > 0 && price.map(|p| p % s.cfg.ticks[*a] == 0 && p != 0 && p != u32::MAX).unwrap_or(true) {
                    Some(*a)
                } else {
                    None
                }
            }
            _ => None,
        };
        if let Some(a) = creates {
            if *k {
                map[a].push(Some(next_new[a]));
                next_new[a] += 1;
            } else {
                map[a].push(None);
            }
            next_old[a] += 1;
        }
        if !*k {
            continue;
        }
        let remap = |a: usize, ord: usize| -> Option<usize> {
            if a >= assets {
                return Some(ord);
            }
            match map[a].get(ord) {
                Some(Some(n)) => Some(*n),
                Some(None) => None,
                None => Some(ord - (next_old[a] - next_new[a]).min(ord)),
            }
        };
        let nop = match op {
            Op::Place { a, ord } => remap(*a, *ord).map(|o| Op::Place { a: *a, ord: o }),
            Op::Cancel { a, ord } => remap(*a, *ord).map(|o| Op::Cancel { a: *a, ord: o }),
            Op::Modify { a, ord, price, vol } => remap(*a, *ord).map(|o| Op::Modify { a: *a, ord: o, price: *price, vol: *vol }),
            Op::Event { a, kind, ord, price, vol } => remap(*a, *ord).map(|o| Op::Event { a: *a, kind: *kind, ord: o, price: *price, vol: *vol }),
            other => Some(other.clone()),
        };
        if let Some(o) = nop {
            out.push(o);
        }
    }
    let mut n = s.clone();
    n.ops = out;
    n
}

// ---------------------------------------------------------------------------------------------
// W3
// ---------------------------------------------------------------------------------------------
use crate::w3ops::{EnvOp, W3Scn};

/// Remove list elements of a W3 scenario: creation ordinals of later cancels / modifies and the target
/// permutations of the steps are renumbered (a permutation entry whose submission was removed is dropped).
pub fn w3_filtered(s: &W3Scn, keep: &[bool]) -> W3Scn {
    let assets = s.cfg.assets;
    let mut map: Vec<Vec<Option<usize>>> = vec![vec![]; assets];
    let mut next_new = vec![0usize; assets];
    let mut out = vec![];
    // submission index inside the current batch: old index -> new index
    let mut batch_map: Vec<Option<usize>> = vec![];
    let mut batch_new = 0usize;
    for (op, k) in s.ops.iter().zip(keep.iter()) {
        match op {
            EnvOp::New { a, vol, price, .. } => {
                let creates = *a < assets && *vol > 0 && price.map(|p| p % s.cfg.ticks[*a] == 0 && p != 0 && p != u32::MAX).unwrap_or(true);
                if creates {
                    if *k {
                        map[*a].push(Some(next_new[*a]));
                        next_new[*a] += 1;
                    } else {
                        map[*a].push(None);
                    }
                    if *k {
                        batch_map.push(Some(batch_new));
                        batch_new += 1;
                        out.push(op.clone());
                    } else {
                        batch_map.push(None);
                    }
                } else if *k {
                    out.push(op.clone());
                }
            }
            EnvOp::Cancel { a, ord } | EnvOp::Modify { a, ord, .. } => {
                let n = if *a < assets { map[*a].get(*ord).copied().flatten() } else { None };
                match (n, *k) {
                    (Some(no), true) => {
                        batch_map.push(Some(batch_new));
                        batch_new += 1;
                        out.push(match op {
                            EnvOp::Cancel { a, .. } => EnvOp::Cancel { a: *a, ord: no },
                            EnvOp::Modify { a, price, vol, .. } => EnvOp::Modify { a: *a, ord: no, price: *price, vol: *vol },
                            _ => unreachable!(),
                        });
                    }
                    _ => batch_map.push(None),
                }
            }
            EnvOp::Step { perm } => {
                if *k {
                    let np = perm.as_ref().map(|p| p.iter().filter_map(|i| batch_map.get(*i).copied().flatten()).collect::<Vec<usize>>());
                    out.push(EnvOp::Step { perm: np });
                    batch_map.clear();
                    batch_new = 0;
                }
                // a removed step merges its batch into the next one: keep numbering
            }
            EnvOp::Trading { .. } => {
                if *k {
                    out.push(op.clone());
                }
            }
        }
    }
    let mut n = s.clone();
    n.ops = out;
    n
}

pub fn w3_simplifications(s: &W3Scn) -> Vec<W3Scn> {
    let mut out = vec![];
    for (i, op) in s.ops.iter().enumerate() {
        let mut push = |op: EnvOp| {
            if s.ops[i] != op {
                let mut n = s.clone();
                n.ops[i] = op;
                out.push(n);
            }
        };
        match op {
            EnvOp::New { a, bid, vol, trader, price } => {
                if *vol > 1 {
                    push(EnvOp::New { a: *a, bid: *bid, vol: 1, trader: *trader, price: *price });
                    push(EnvOp::New { a: *a, bid: *bid, vol: vol / 2, trader: *trader, price: *price });
                }
                if *trader != 0 {
                    push(EnvOp::New { a: *a, bid: *bid, vol: *vol, trader: 0, price: *price });
                }
            }
            EnvOp::Step { perm: Some(p) } => {
                let id: Vec<usize> = (0..p.len()).collect();
                if *p != id {
                    push(EnvOp::Step { perm: Some(id) });
                }
            }
            _ => {}
        }
    }
    if s.cfg.t0 != 0 {
        let mut n = s.clone();
        n.cfg.t0 = 0;
        out.push(n);
    }
    out
}

// ---------------------------------------------------------------------------------------------
// W4
// ---------------------------------------------------------------------------------------------
use crate::w4::W4Scn;

/// list = agents ++ initial orders ++ injections
pub fn w4_filtered(s: &W4Scn, keep: &[bool]) -> W4Scn {
    let mut n = s.clone();
    let (na, ni) = (s.agents.len(), s.initial.len());
    n.agents = s.agents.iter().enumerate().filter(|(i, _)| keep[*i]).map(|(_, x)| x.clone()).collect();
    n.initial = s.initial.iter().enumerate().filter(|(i, _)| keep[na + *i]).map(|(_, x)| *x).collect();
    n.inject = s.inject.iter().enumerate().filter(|(i, _)| keep[na + ni + *i]).map(|(_, x)| *x).collect();
    if n.agents.is_empty() {
        // an agent-less simulation is not a smaller instance of the same scenario
        n.agents = vec![s.agents[0].clone()];
    }
    n
}

pub fn w4_simplifications(s: &W4Scn) -> Vec<W4Scn> {
    let mut out = vec![];
    if s.cfg.path.is_empty() {
        for k in [1, s.cfg.n_steps / 2, s.cfg.n_steps.saturating_sub(1)] {
            if k >= 1 && k < s.cfg.n_steps {
                let mut n = s.clone();
                n.cfg.n_steps = k;
                out.push(n);
            }
        }
    } else {
        for k in [2usize, s.cfg.path.len() / 2, s.cfg.path.len().saturating_sub(1)] {
            if k >= 2 && k < s.cfg.path.len() {
                let mut n = s.clone();
                n.cfg.path.truncate(k);
                n.cfg.n_steps = k as u64;
                out.push(n);
            }
        }
    }
    if s.cfg.t0 != 0 {
        let mut n = s.clone();
        n.cfg.t0 = 0;
        out.push(n);
    }
    if let Some(c) = &s.cfg.child {
        if *c != crate::w4::ChildFlags::default() {
            let mut n = s.clone();
            n.cfg.child = Some(Default::default());
            out.push(n);
        }
    }
    out
}
