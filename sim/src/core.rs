//! Shared vocabulary: violations, run statistics, tiers.
use serde::{Deserialize, Serialize};
use std::collections::BTreeMap;

#[derive(Clone, Copy, PartialEq, Eq, Debug, Serialize, Deserialize)]
pub enum Tier {
    Quick,
    Thorough,
}

#[derive(Clone, Debug, Serialize, Deserialize, PartialEq)]
pub struct Violation {
    pub property: String,
    /// stable class string; what shrinking preserves and what known-finding signatures match on
    pub class: String,
    /// code site / cause classification used by the known-findings classifier ("" when none)
    pub site: String,
    pub op_index: usize,
    pub field: String,
    pub expected: String,
    pub actual: String,
    pub detail: String,
}

impl Violation {
    pub fn new(property: &str, class: &str, op_index: usize, field: &str, expected: String, actual: String) -> Self {
        Violation {
            property: property.to_string(),
            class: class.to_string(),
            site: String::new(),
            op_index,
            field: field.to_string(),
            expected,
            actual,
            detail: String::new(),
        }
    }
    pub fn site(mut self, s: &str) -> Self {
        self.site = s.to_string();
        self
    }
    pub fn detail(mut self, s: String) -> Self {
        self.detail = s;
        self
    }
    pub fn signature(&self) -> String {
        format!("{}@{}", self.class, self.site)
    }
}

#[derive(Clone, Debug, Default)]
pub struct RunStats {
    pub ops: u64,
    pub skipped_ops: u64,
    pub sim_time: u64,
    pub nontrivial: bool,
    pub end_digest: u64,
    pub state_digests: Vec<u64>,
    pub faults: BTreeMap<&'static str, u64>,
    pub probes: BTreeMap<&'static str, u64>,
    /// small-alphabet prefix digest (len<=4) when the run is in the narrow corner
    pub prefix_digests: Vec<u64>,
    pub inconclusive: bool,
    /// named digest sets (distinct-count measures merged across runs)
    pub sets: BTreeMap<&'static str, Vec<u64>>,
    /// named count tables summed across runs (C15)
    pub tables: BTreeMap<String, Vec<u64>>,
    /// named maxima (merged by max across runs)
    pub maxes: BTreeMap<&'static str, u64>,
}

impl RunStats {
    pub fn fault(&mut self, k: &'static str) {
        *self.faults.entry(k).or_insert(0) += 1;
    }
    pub fn probe(&mut self, k: &'static str) {
        *self.probes.entry(k).or_insert(0) += 1;
    }
    pub fn max(&mut self, k: &'static str, v: u64) {
        let e = self.maxes.entry(k).or_insert(0);
        if v > *e {
            *e = v;
        }
    }
    pub fn set(&mut self, k: &'static str, d: u64) {
        self.sets.entry(k).or_default().push(d);
    }
    pub fn table_add(&mut self, k: &str, len: usize, idx: usize, n: u64) {
        let t = self.tables.entry(k.to_string()).or_insert_with(|| vec![0; len]);
        if t.len() < len {
            t.resize(len, 0);
        }
        t[idx] += n;
    }
    pub fn probe_n(&mut self, k: &'static str, n: u64) {
        *self.probes.entry(k).or_insert(0) += n;
    }
}

pub struct RunOutcome {
    pub violation: Option<Violation>,
    pub stats: RunStats,
}

thread_local! {
    static LAST_PANIC: std::cell::RefCell<String> = const { std::cell::RefCell::new(String::new()) };
}

/// Install a silent panic hook that records message and location per thread (read by `guard`).
pub fn install_panic_hook() {
    std::panic::set_hook(Box::new(|info| {
        let msg = if let Some(s) = info.payload().downcast_ref::<&str>() {
            s.to_string()
        } else if let Some(s) = info.payload().downcast_ref::<String>() {
            s.clone()
        } else {
            "panic".to_string()
        };
        let loc = info.location().map(|l| format!("{}:{}", l.file(), l.line())).unwrap_or_default();
        if std::env::var("VERIF_PANIC_TRACE").is_ok() {
            eprintln!("panic: {} at {}", msg, loc);
            if std::env::var("VERIF_PANIC_TRACE").map(|v| v == "full").unwrap_or(false) {
                eprintln!("{}", std::backtrace::Backtrace::force_capture());
            }
        }
        LAST_PANIC.with(|p| *p.borrow_mut() = format!("{} at {}", msg, loc));
    }));
}

/// Run `f`, converting a panic into `Err("message at file:line")`.
pub fn guard<T>(f: impl FnOnce() -> T) -> Result<T, String> {
    match std::panic::catch_unwind(std::panic::AssertUnwindSafe(f)) {
        Ok(v) => Ok(v),
        Err(_) => Err(LAST_PANIC.with(|p| p.borrow().clone())),
    }
}
