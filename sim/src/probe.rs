//! Probe agents for C20: each `update` logs (field tag, type tag, next generator draw, number of orders in
//! the environment) and places one order tagged with its field.
use bourse_book::types::Side;
use bourse_de::agents::{Agent, MarketAgent};
use bourse_de::{Env, MarketEnv};
use rand::RngCore;
use std::cell::RefCell;
use std::rc::Rc;

#[derive(Clone, Copy, Debug, PartialEq, Eq)]
pub struct Rec {
    pub tag: u32,
    pub ty: u8,
    pub draw: u64,
    pub orders: usize,
}
pub type Log = Rc<RefCell<Vec<Rec>>>;
pub fn new_log() -> Log {
    Rc::new(RefCell::new(Vec::new()))
}
pub fn take_log(l: &Log) -> Vec<Rec> {
    l.borrow().clone()
}

/// Per-thread plan of one C20 run: which member of the generator family the shared generator is, and the ordinal of the
/// member update (counted over the whole run) at which the probe aborts instead of acting - a member that fails (as the
/// built-in agents do when a submission is rejected). The caller of the set catches the abort; the next call of the set
/// must again update every member once, in order.
#[derive(Clone, Copy, Default)]
pub struct Plan {
    pub gen_kind: usize,
    pub panic_at: Option<usize>,
    pub ordinal: usize,
}
thread_local! {
    static PLAN: std::cell::Cell<Plan> = const { std::cell::Cell::new(Plan { gen_kind: 0, panic_at: None, ordinal: 0 }) };
}
pub fn plan_set(gen_kind: usize, panic_at: Option<usize>) {
    PLAN.with(|p| p.set(Plan { gen_kind, panic_at, ordinal: 0 }));
}
/// the shared generator of a run (the member of the family named by the plan)
pub fn plan_rng(seed: u64) -> crate::rng::SeamRng {
    crate::rng::SeamRng::passthrough_kind(seed, PLAN.with(|p| p.get().gen_kind))
}
/// one call of a set's update; an abort of a member is caught here, as a caller would
pub fn plan_call(f: impl FnOnce()) {
    let _ = crate::core::guard(f);
}
/// which `RngCore` method the k-th member update of a run uses: 0 next_u64, 1 next_u32, 2 fill_bytes(8)
pub fn draw_mode(tag: u32, ordinal: usize) -> usize {
    (tag as usize + ordinal) % 3
}
pub fn draw_with<R: RngCore>(rng: &mut R, mode: usize) -> u64 {
    match mode {
        0 => rng.next_u64(),
        1 => rng.next_u32() as u64,
        _ => {
            let mut b = [0u8; 8];
            rng.fill_bytes(&mut b);
            u64::from_le_bytes(b)
        }
    }
}
/// start of a member update: its ordinal, or the planned abort
fn member_enter() -> usize {
    let mut pl = PLAN.with(|p| p.get());
    let k = pl.ordinal;
    pl.ordinal += 1;
    PLAN.with(|p| p.set(pl));
    if pl.panic_at == Some(k) {
        panic!("probe member fails (planned, member update {})", k);
    }
    k
}

pub struct Probe<const T: u8> {
    tag: u32,
    log: Log,
}
impl<const T: u8> Probe<T> {
    pub fn new(tag: u32, log: &Log) -> Self {
        Probe { tag, log: log.clone() }
    }
}
impl<const T: u8> Agent for Probe<T> {
    fn update<R: RngCore>(&mut self, env: &mut Env, rng: &mut R) {
        let k = member_enter();
        let draw = draw_with(rng, draw_mode(self.tag, k));
        let orders = env.get_orders().len();
        self.log.borrow_mut().push(Rec { tag: self.tag, ty: T, draw, orders });
        // members may act on the shared environment in any way, e.g. halt / resume trading in the middle of a set's update
        // (decided by the draw, so the derived and the hand-written sequence do the same)
        if T == 3 && draw % 4 == 0 {
            env.disable_trading();
        } else if T == 2 && draw % 4 == 0 {
            env.enable_trading();
        }
        let _ = env.place_order(Side::Bid, 1, self.tag, Some(100 + self.tag));
    }
}

pub struct MProbe<const T: u8> {
    tag: u32,
    log: Log,
}
impl<const T: u8> MProbe<T> {
    pub fn new(tag: u32, log: &Log) -> Self {
        MProbe { tag, log: log.clone() }
    }
}
impl<const T: u8> MarketAgent for MProbe<T> {
    fn update<R: RngCore, const M: usize, const N: usize>(&mut self, env: &mut MarketEnv<M, N>, rng: &mut R) {
        let k = member_enter();
        let draw = draw_with(rng, draw_mode(self.tag, k));
        let orders = env.get_orders(0).len();
        self.log.borrow_mut().push(Rec { tag: self.tag, ty: T, draw, orders });
        if T == 3 && draw % 4 == 0 {
            env.disable_trading();
        } else if T == 2 && draw % 4 == 0 {
            env.enable_trading();
        }
        let _ = env.place_order(0, Side::Bid, 1, self.tag, Some(100 + self.tag));
    }
}

/// other spellings of the probe type (see shapes/gen.py SPELL)
#[allow(non_camel_case_types)]
pub mod env_spell {
    pub type OptionsDesk<const T: u8> = super::Probe<T>;
    pub type VectorisedMakers<const T: u8> = super::Probe<T>;
    pub type Stringer<const T: u8> = super::Probe<T>;
    pub type boolean_desk<const T: u8> = super::Probe<T>;
    pub type charting<const T: u8> = super::Probe<T>;
    pub type f32_desk<const T: u8> = super::Probe<T>;
    pub type u64_flow<const T: u8> = super::Probe<T>;
    pub type isize_mm<const T: u8> = super::Probe<T>;
    pub type HashMapped<const T: u8> = super::Probe<T>;
    pub type BTreeMapped<const T: u8> = super::Probe<T>;
    pub type PhantomDataDesk<const T: u8> = super::Probe<T>;
    pub mod strategies {
        pub type Trend<const T: u8> = super::super::Probe<T>;
    }
    pub mod charts {
        pub type Follower<const T: u8> = super::super::Probe<T>;
    }
    pub mod u8x {
        pub type Desk<const T: u8> = super::super::Probe<T>;
    }
    pub mod i128s {
        pub type Desk<const T: u8> = super::super::Probe<T>;
    }
    pub mod usize_agents {
        pub type Mm<const T: u8> = super::super::Probe<T>;
    }
}
/// other spellings of the probe type (see shapes/gen.py SPELL)
#[allow(non_camel_case_types)]
pub mod mkt_spell {
    pub type OptionsDesk<const T: u8> = super::MProbe<T>;
    pub type VectorisedMakers<const T: u8> = super::MProbe<T>;
    pub type Stringer<const T: u8> = super::MProbe<T>;
    pub type boolean_desk<const T: u8> = super::MProbe<T>;
    pub type charting<const T: u8> = super::MProbe<T>;
    pub type f32_desk<const T: u8> = super::MProbe<T>;
    pub type u64_flow<const T: u8> = super::MProbe<T>;
    pub type isize_mm<const T: u8> = super::MProbe<T>;
    pub type HashMapped<const T: u8> = super::MProbe<T>;
    pub type BTreeMapped<const T: u8> = super::MProbe<T>;
    pub type PhantomDataDesk<const T: u8> = super::MProbe<T>;
    pub mod strategies {
        pub type Trend<const T: u8> = super::super::MProbe<T>;
    }
    pub mod charts {
        pub type Follower<const T: u8> = super::super::MProbe<T>;
    }
    pub mod u8x {
        pub type Desk<const T: u8> = super::super::MProbe<T>;
    }
    pub mod i128s {
        pub type Desk<const T: u8> = super::super::MProbe<T>;
    }
    pub mod usize_agents {
        pub type Mm<const T: u8> = super::super::MProbe<T>;
    }
}

pub struct ShapeEntry {
    pub name: &'static str,
    pub fields: usize,
    pub leaves: usize,
    pub nested: bool,
    pub repeated_types: bool,
    pub expect: &'static [(u32, u8)],
    /// run(derived, seed, calls) for three instantiations (the environment kind ignores the index)
    pub run: [fn(bool, u64, usize) -> Vec<Rec>; 3],
}

/// Hand-written members that own further sets of the SAME derived type (recursion through a Vec): a derived set must be
/// re-entrant - updating one value of a type while another value of that type is in the middle of its own update.
pub struct Kids<T>(pub Vec<T>);
impl<T: bourse_de::agents::AgentSet> Agent for Kids<T> {
    fn update<R: RngCore>(&mut self, env: &mut Env, rng: &mut R) {
        for k in self.0.iter_mut() {
            k.update(env, rng);
        }
    }
}
pub struct MKids<T>(pub Vec<T>);
impl<T: bourse_de::agents::MarketAgentSet> MarketAgent for MKids<T> {
    fn update<R: RngCore, const M: usize, const N: usize>(&mut self, env: &mut MarketEnv<M, N>, rng: &mut R) {
        for k in self.0.iter_mut() {
            k.update(env, rng);
        }
    }
}
