//! Probe agents for C20: each `update` logs (field tag, type tag, next generator draw, number of orders in
//! the environment) and places one order tagged with its field.
use bourse_book::types::Side;
use bourse_de::agents::{Agent, MarketAgent};
use bourse_de::{Env, MarketEnv};
use rand::RngCore;
use std::cell::RefCell;
use std::rc::Rc;

#[derive(Clone, Copy, Debug, PartialEq, Eq)]
pub struct Rec {
    pub tag: u32,
    pub ty: u8,
    pub draw: u64,
    pub orders: usize,
}
pub type Log = Rc<RefCell<Vec<Rec>>>;
pub fn new_log() -> Log {
    Rc::new(RefCell::new(Vec::new()))
}
pub fn take_log(l: &Log) -> Vec<Rec> {
    l.borrow().clone()
}

pub struct Probe<const T: u8> {
    tag: u32,
    log: Log,
}
impl<const T: u8> Probe<T> {
    pub fn new(tag: u32, log: &Log) -> Self {
        Probe { tag, log: log.clone() }
    }
}
impl<const T: u8> Agent for Probe<T> {
    fn update<R: RngCore>(&mut self, env: &mut Env, rng: &mut R) {
        let draw = rng.next_u64();
        let orders = env.get_orders().len();
        self.log.borrow_mut().push(Rec { tag: self.tag, ty: T, draw, orders });
        // members may act on the shared environment in any way, e.g. halt / resume trading in the middle of a set's update
        // (decided by the draw, so the derived and the hand-written sequence do the same)
        if T == 3 && draw % 4 == 0 {
            env.disable_trading();
        } else if T == 2 && draw % 4 == 0 {
            env.enable_trading();
        }
        let _ = env.place_order(Side::Bid, 1, self.tag, Some(100 + self.tag));
    }
}

pub struct MProbe<const T: u8> {
    tag: u32,
    log: Log,
}
impl<const T: u8> MProbe<T> {
    pub fn new(tag: u32, log: &Log) -> Self {
        MProbe { tag, log: log.clone() }
    }
}
impl<const T: u8> MarketAgent for MProbe<T> {
    fn update<R: RngCore, const M: usize, const N: usize>(&mut self, env: &mut MarketEnv<M, N>, rng: &mut R) {
        let draw = rng.next_u64();
        let orders = env.get_orders(0).len();
        self.log.borrow_mut().push(Rec { tag: self.tag, ty: T, draw, orders });
        if T == 3 && draw % 4 == 0 {
            env.disable_trading();
        } else if T == 2 && draw % 4 == 0 {
            env.enable_trading();
        }
        let _ = env.place_order(0, Side::Bid, 1, self.tag, Some(100 + self.tag));
    }
}

pub struct ShapeEntry {
    pub name: &'static str,
    pub fields: usize,
    pub leaves: usize,
    pub nested: bool,
    pub repeated_types: bool,
    pub expect: &'static [(u32, u8)],
    /// run(derived, seed, calls) for three instantiations (the environment kind ignores the index)
    pub run: [fn(bool, u64, usize) -> Vec<Rec>; 3],
}

/// Hand-written members that own further sets of the SAME derived type (recursion through a Vec): a derived set must be
/// re-entrant - updating one value of a type while another value of that type is in the middle of its own update.
pub struct Kids<T>(pub Vec<T>);
impl<T: bourse_de::agents::AgentSet> Agent for Kids<T> {
    fn update<R: RngCore>(&mut self, env: &mut Env, rng: &mut R) {
        for k in self.0.iter_mut() {
            k.update(env, rng);
        }
    }
}
pub struct MKids<T>(pub Vec<T>);
impl<T: bourse_de::agents::MarketAgentSet> MarketAgent for MKids<T> {
    fn update<R: RngCore, const M: usize, const N: usize>(&mut self, env: &mut MarketEnv<M, N>, rng: &mut R) {
        for k in self.0.iter_mut() {
            k.update(env, rng);
        }
    }
}
