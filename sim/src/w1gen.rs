//! Seeded generation of W1 / W2 scenarios (swarm style): configuration, clients, clock, faults.
use crate::api::{EvKind, BOOK_LEVELS, MARKET_LEVELS};
use crate::model::{Model, Tie};
use crate::obs::*;
use crate::rng::SimRng;
use crate::w1exec::Exec;
use crate::w1ops::*;

#[derive(Clone, Debug)]
pub struct Profile {
    pub property: &'static str,
    pub monitors: u32,
    pub discipline: bool,
    pub market_share: f64,
    pub force_market: bool,
    /// weights: maker, taker, create_only, place, cancel, modify, duplicate, tick, trading, reset, snapshot, offgrid_create
    pub w: [u32; 12],
    pub modify_only_via_event: bool,
    pub tie_rate: f64,
    pub narrow_share: f64,
    pub drain: bool,
    pub offgrid_modify_last: f64,
    pub start_halted: f64,
    pub truncate_rate: f64,
    pub max_len: usize,
}

pub fn profile_for(prop: &str) -> Profile {
    use mon::*;
    let base = Profile {
        property: "C01",
        monitors: MODEL,
        discipline: true,
        market_share: 0.0,
        force_market: false,
        w: [30, 25, 6, 8, 10, 0, 6, 25, 0, 0, 0, 0],
        modify_only_via_event: true,
        tie_rate: 0.0,
        narrow_share: 0.4,
        drain: true,
        offgrid_modify_last: 0.0,
        start_halted: 0.0,
        truncate_rate: 0.0,
        max_len: 400,
    };
    match prop {
        // (a crash-restart through JSON is a fault, not an operation: the reloaded book must go on matching by the same rules)
        "C01" => Profile { w: [30, 25, 6, 8, 10, 3, 6, 25, 0, 0, 2, 0], ..base },
        "C02" => Profile {
            property: "C02",
            monitors: RECOMPUTE | MID,
            market_share: 0.3,
            w: [30, 22, 5, 6, 10, 12, 4, 22, 4, 1, 3, 0],
            modify_only_via_event: false,
            drain: false,
            start_halted: 0.1,
            ..base
        },
        "C03" => Profile {
            market_share: 0.15,
            property: "C03",
            monitors: LEDGER,
            // (snapshot reloads too: the counter and the log must survive a crash-restart unchanged)
            w: [28, 26, 5, 6, 8, 14, 4, 22, 4, 3, 3, 0],
            modify_only_via_event: false,
            drain: true,
            start_halted: 0.05,
            ..base
        },
        "C04" => Profile {
            market_share: 0.15,
            property: "C04",
            monitors: LIFECYCLE | NOOP,
            discipline: false,
            w: [24, 20, 8, 12, 12, 10, 30, 18, 5, 1, 3, 0],
            modify_only_via_event: false,
            drain: false,
            start_halted: 0.15,
            ..base
        },
        "C05" => Profile {
            property: "C05",
            monitors: MODEL | TIE_CLASSIFY | RECOMPUTE | LEDGER | LIFECYCLE | NOOP | MODIFY_INV,
            discipline: false,
            market_share: 0.15,
            w: [32, 22, 5, 8, 10, 12, 6, 10, 1, 1, 2, 0],
            modify_only_via_event: false,
            tie_rate: 0.8,
            narrow_share: 0.6,
            drain: true,
            ..base
        },
        "C06" => Profile {
            market_share: 0.15,
            property: "C06",
            monitors: MODEL | MODIFY_INV,
            // (halts leave the book crossed, so that an unchanged-price re-entry can cross; reloads must keep the queue order)
            w: [34, 16, 3, 5, 6, 30, 6, 24, 3, 0, 2, 0],
            modify_only_via_event: false,
            drain: true,
            start_halted: 0.08,
            ..base
        },
        "C07" => Profile {
            property: "C07",
            monitors: MODEL | TWIN,
            market_share: 0.35,
            w: [30, 22, 8, 6, 8, 12, 4, 22, 5, 2, 9, 0],
            modify_only_via_event: false,
            drain: true,
            start_halted: 0.15,
            truncate_rate: 0.04,
            ..base
        },
        "C12" => Profile {
            property: "C12",
            monitors: GRID | RECOMPUTE,
            market_share: 0.35,
            w: [26, 18, 6, 6, 8, 12, 8, 20, 3, 1, 2, 22],
            modify_only_via_event: false,
            drain: false,
            offgrid_modify_last: 0.3,
            ..base
        },
        "C13" => Profile {
            property: "C13",
            monitors: MODEL | HALT,
            market_share: 0.3,
            w: [28, 26, 5, 6, 8, 14, 4, 22, 14, 1, 2, 0],
            modify_only_via_event: false,
            drain: true,
            start_halted: 0.4,
            ..base
        },
        "C14" => Profile {
            property: "C14",
            monitors: SHADOW,
            market_share: 1.0,
            force_market: true,
            w: [30, 24, 6, 8, 10, 12, 5, 22, 5, 3, 2, 0],
            modify_only_via_event: false,
            drain: true,
            start_halted: 0.1,
            ..base
        },
        _ => base,
    }
}

pub struct Alphabet {
    pub prices: Vec<u32>,
    pub centre: usize,
    pub vols: u8,
    pub wide: bool,
}

pub fn make_alphabet(r: &mut SimRng, tick: u32, kind: u8) -> Vec<u32> {
    let t = tick as u64;
    let max_k = (PMAX as u64 - 1) / t; // highest multiple of tick strictly below 2^32-1
    let n = match kind {
        0 => 3,
        3 => 26, // deep: enough adjacent levels to populate every published level (up to 24)
        _ => 8,
    };
    let lo_k = match r.below(10) {
        0 => 1,                                  // hugging the lowest price
        1 => max_k - n as u64 + 1,               // hugging the highest price
        2..=5 => r.range(1, 200),
        _ => r.range(1, max_k - n as u64 + 1),
    };
    let mut v: Vec<u32> = (0..n as u64).map(|i| ((lo_k + i) * t) as u32).collect();
    if kind == 2 {
        v.push(t as u32);
        v.push((max_k * t) as u32);
        for _ in 0..4 {
            v.push((r.range(1, max_k) * t) as u32);
        }
        v.sort();
        v.dedup();
    }
    v
}

pub fn gen_vol(r: &mut SimRng, kind: u8) -> u32 {
    match kind {
        0 => r.range(1, 2) as u32,
        1 => r.range(1, 10) as u32,
        2 => r.range(1, 1_000_000) as u32,
        _ => {
            // whales: a few of them bring one side close to the 2^32 bound on outstanding volume
            match r.below(4) {
                0 => r.range(1 << 24, 1 << 29) as u32,
                1 => r.range(1 << 29, 3 << 30) as u32,
                _ => r.range(1, 1000) as u32,
            }
        }
    }
}

struct Gen<'a> {
    r: &'a mut SimRng,
    p: &'a Profile,
    alph: Vec<Vec<u32>>,
    vol_kind: u8,
    ex: Exec,
    ops: Vec<Op>,
}

impl<'a> Gen<'a> {
    fn model(&self, a: usize) -> &Model {
        &self.ex.models[a]
    }
    fn n_orders(&self, a: usize) -> usize {
        self.ex.ids[a].len()
    }
    fn pick_asset(&mut self) -> usize {
        self.r.usize(self.ex.cfg.assets)
    }
    fn pick_price(&mut self, a: usize, bid: bool, passive_bias: f64) -> u32 {
        let al = &self.alph[a];
        let n = al.len();
        if self.r.chance(passive_bias) {
            // bids in the lower half, asks in the upper half
            let half = n / 2;
            if bid {
                al[self.r.usize(half.max(1))]
            } else {
                al[half + self.r.usize(n - half)]
            }
        } else {
            al[self.r.usize(n)]
        }
    }
    fn pick_order(&mut self, a: usize, want: Option<u8>) -> Option<usize> {
        let n = self.n_orders(a);
        if n == 0 {
            return None;
        }
        if let Some(st) = want {
            let c: Vec<usize> = self.model(a).orders.iter().filter(|o| o.o.status == st).map(|o| o.o.id).collect();
            if !c.is_empty() {
                // ordinal == id for dense ids
                return Some(c[self.r.usize(c.len())]);
            }
            return None;
        }
        Some(self.r.usize(n))
    }

    fn push(&mut self, op: Op) {
        // keep the clock discipline by advancing the clock when the request would tie
        if self.ex.cfg.discipline && self.ex.expand(&op).is_none() {
            let t = Op::Tick { dt: 1 };
            self.ex.run(std::slice::from_ref(&t));
            self.ops.push(t);
        }
        self.ex.run(std::slice::from_ref(&op));
        self.ops.push(op);
    }

    fn maker(&mut self) {
        let a = self.pick_asset();
        let bid = self.r.chance(0.5);
        let price = self.pick_price(a, bid, 0.75);
        let vol = gen_vol(self.r, self.vol_kind);
        // trader ids are opaque: mostly small, sometimes at the top of the domain
        let trader = if self.r.chance(0.05) { u32::MAX - self.r.below(3) as u32 } else { self.r.below(5) as u32 };
        self.push(Op::CreatePlace { a, bid, vol, trader, price: Some(price) });
    }

    fn taker(&mut self) {
        let a = self.pick_asset();
        let bid = self.r.chance(0.5);
        // opposite side grouped by level
        let m = self.model(a);
        let q = m.queue(!bid);
        let mut levels: Vec<(u32, u64)> = vec![];
        for id in &q {
            let o = &m.orders[*id].o;
            match levels.last_mut() {
                Some(l) if l.0 == o.price => l.1 += o.vol as u64,
                _ => levels.push((o.price, o.vol as u64)),
            }
        }
        let head_vol = if q.is_empty() { 0 } else { m.orders[q[0]].o.vol as u64 };
        let trader = 100 + self.r.below(3) as u32;
        if levels.is_empty() {
            let vol = gen_vol(self.r, self.vol_kind);
            let price = if self.r.chance(0.5) { None } else { Some(self.pick_price(a, bid, 0.0)) };
            self.push(Op::CreatePlace { a, bid, vol, trader, price });
            return;
        }
        let k = self.r.usize(levels.len().min(3));
        let upto: u64 = levels[..=k].iter().map(|l| l.1).sum();
        let total: u64 = levels.iter().map(|l| l.1).sum();
        let vol: u64 = match self.r.below(6) {
            0 if head_vol > 1 => self.r.range(1, head_vol - 1),
            1 => head_vol,
            2 => levels[0].1,
            3 => upto,
            4 => upto.saturating_sub(self.r.below(upto.min(3).max(1))).max(1),
            _ => total + self.r.range(1, 5),
        };
        let vol = vol.clamp(1, PMAX as u64 / 4) as u32;
        let price = if self.r.chance(0.35) { None } else { Some(levels[k].0) };
        let two_step = self.r.chance(0.2);
        if two_step {
            self.push(Op::Create { a, bid, vol, trader, price });
            let ord = self.n_orders(a).saturating_sub(1);
            if self.r.chance(0.5) {
                self.push(Op::Place { a, ord });
            } else {
                self.push(Op::Event { a, kind: EvKind::New, ord, price: None, vol: None });
            }
        } else {
            self.push(Op::CreatePlace { a, bid, vol, trader, price });
        }
    }

    fn create_only(&mut self) {
        let a = self.pick_asset();
        let bid = self.r.chance(0.5);
        let price = if self.r.chance(0.2) { None } else { Some(self.pick_price(a, bid, 0.5)) };
        let vol = gen_vol(self.r, self.vol_kind);
        self.push(Op::Create { a, bid, vol, trader: 200, price });
    }

    fn place(&mut self) {
        let a = self.pick_asset();
        if let Some(ord) = self.pick_order(a, Some(NEW)) {
            if self.r.chance(0.5) {
                self.push(Op::Place { a, ord });
            } else {
                self.push(Op::Event { a, kind: EvKind::New, ord, price: None, vol: None });
            }
        }
    }

    fn cancel(&mut self) {
        let a = self.pick_asset();
        let want = if self.r.chance(0.85) { Some(ACTIVE) } else { None };
        if let Some(ord) = self.pick_order(a, want).or_else(|| self.pick_order(a, None)) {
            if self.r.chance(0.6) {
                self.push(Op::Cancel { a, ord });
            } else {
                self.push(Op::Event { a, kind: EvKind::Cancel, ord, price: None, vol: None });
            }
        }
    }

    fn modify(&mut self, any_status: bool) {
        let a = self.pick_asset();
        let want = if any_status { None } else { Some(ACTIVE) };
        let ord = match self.pick_order(a, want).or_else(|| self.pick_order(a, None)) {
            Some(o) => o,
            None => return,
        };
        let cur = self.model(a).orders[ord].o;
        let price = match self.r.below(10) {
            0..=4 => None,
            5 => Some(cur.price).filter(|p| *p != 0 && *p != PMAX),
            _ => Some(self.pick_price(a, cur.bid, 0.4)),
        };
        let vol = match self.r.below(8) {
            0 | 1 => None,
            2 | 3 | 4 => {
                if cur.vol > 1 {
                    Some(self.r.range(1, cur.vol as u64 - 1) as u32)
                } else {
                    Some(1)
                }
            }
            5 => Some(cur.vol.max(1)),
            _ => Some(cur.vol.saturating_add(gen_vol(self.r, self.vol_kind.min(2))).max(1)),
        };
        // C12: re-price requests off the tick grid, at any point of a history and against orders in any status
        // (an off-grid price is not a valid price: the request must be ignored, the order keeps its price)
        let mut price = price;
        let tick = self.ex.cfg.ticks[a];
        if self.ex.cfg.allow_offgrid_modify && tick > 1 && self.r.chance(0.3) {
            let base = price.unwrap_or(cur.price);
            if base != 0 && base != PMAX {
                price = Some((base / tick * tick).saturating_add(1 + self.r.below(tick as u64 - 1) as u32).min(PMAX - 1));
            }
            if PMAX % tick != 0 && self.r.chance(0.12) {
                price = Some(PMAX);
            }
        }
        if self.p.modify_only_via_event || self.r.chance(0.35) {
            self.push(Op::Event { a, kind: EvKind::Modify, ord, price, vol });
        } else {
            self.push(Op::Modify { a, ord, price, vol });
        }
        // a modification addressed to an order that is still unplaced must not survive into its placement
        if cur.status == NEW && self.r.chance(0.5) {
            self.push(Op::Place { a, ord });
        }
    }

    fn duplicate(&mut self) {
        let a = self.pick_asset();
        let ord = match self.pick_order(a, None) {
            Some(o) => o,
            None => return,
        };
        match self.r.below(3) {
            0 => self.push(Op::Place { a, ord }),
            1 => {
                self.push(Op::Cancel { a, ord });
                if self.r.chance(0.5) {
                    self.push(Op::Cancel { a, ord });
                }
            }
            _ => {
                if self.p.w[5] > 0 {
                    self.modify(true)
                } else {
                    self.push(Op::Place { a, ord })
                }
            }
        }
    }

    fn tick(&mut self) {
        let dt = if self.r.chance(self.p.tie_rate) {
            0
        } else {
            match self.r.below(20) {
                0..=9 => 1,
                10..=14 => self.r.range(2, 100),
                15..=17 => 10u64.pow(self.r.range(3, 9) as u32),
                18 => self.r.range(1, 1 << 40),
                _ => {
                    let t = self.model(0).t;
                    if t < (1 << 61) {
                        (1u64 << 61) + self.r.below(1 << 60) - t.min(1 << 61)
                    } else {
                        1
                    }
                }
            }
        };
        self.push(Op::Tick { dt });
    }

    fn snapshot(&mut self) {
        let how = self.r.below(4) as u8;
        let into_levels = if self.r.chance(0.6) {
            self.ex.cfg.levels
        } else if self.ex.cfg.market {
            *self.r.pick(&MARKET_LEVELS)
        } else {
            *self.r.pick(&BOOK_LEVELS)
        };
        let keep = self.r.chance(0.45);
        let truncate = how >= 2 && self.r.chance(self.p.truncate_rate);
        self.push(Op::Snapshot { how, into_levels, keep, truncate });
        // the continuation must reveal the restored trading flag: a crossing limit order and a market order
        if self.r.chance(0.7) {
            self.taker();
            let a = self.pick_asset();
            let bid = self.r.chance(0.5);
            self.push(Op::CreatePlace { a, bid, vol: 1, trader: 300, price: None });
        }
    }

    fn offgrid_create(&mut self) {
        let a = self.pick_asset();
        let tick = self.ex.cfg.ticks[a];
        let bid = self.r.chance(0.5);
        let base = self.pick_price(a, bid, 0.3);
        let price = match self.r.below(6) {
            0 => base, // on grid through the same path
            1 => base.saturating_add(1).min(PMAX - 1),
            2 => base.saturating_sub(1).max(1),
            3 => self.r.range(1, (PMAX - 1) as u64) as u32,
            4 => PMAX - 1 - self.r.below(10) as u32,
            _ => 1 + self.r.below((tick as u64 * 3).max(2)) as u32,
        };
        let vol = gen_vol(self.r, self.vol_kind);
        if self.r.chance(0.08) {
            // the two ends of the price domain as creation requests (created, never placed): 0 is a multiple of every tick
            // size, 2^32-1 of the tick sizes that divide it
            let price = if self.r.chance(0.5) { 0 } else { PMAX };
            // ... except where such an order is an ordinary resting order (a buy at 0, a sell at 2^32-1 on a grid that
            // contains it): those are placed too, at once or later (the executor refuses the placement otherwise)
            if self.r.chance(0.5) {
                self.push(Op::CreatePlace { a, bid: price == 0, vol, trader: 402, price: Some(price) });
            } else {
                self.push(Op::Create { a, bid, vol, trader: 401, price: Some(price) });
            }
            return;
        }
        if self.r.chance(0.5) {
            self.push(Op::Create { a, bid, vol, trader: 400, price: Some(price) });
        } else {
            self.push(Op::CreatePlace { a, bid, vol, trader: 400, price: Some(price) });
        }
    }
}

pub fn generate(prop: &str, seed: u64) -> W1Scn {
    let p = profile_for(prop);
    let mut r = SimRng::new(seed);
    let market = p.force_market || r.chance(p.market_share);
    // (12 assets: two-digit asset indices, more assets than any small fixed-size structure; the property's own range is 1..4)
    let assets = if market {
        if r.chance(0.05) {
            12
        } else {
            r.range(1, 4) as usize
        }
    } else {
        1
    };
    let levels = if market { *r.pick(&MARKET_LEVELS) } else { r.range(1, 24) as usize };
    let narrow = r.chance(p.narrow_share);
    let (alpha_kind, vol_kind) = if narrow { (0u8, 0u8) } else { (r.range(1, 2) as u8, r.range(0, 3) as u8) };
    let ticks: Vec<u32> = (0..assets).map(|_| r.range(1, 10) as u32).collect();
    let t0 = match r.below(4) {
        0 => 0,
        1 => r.below(1000),
        2 => r.below(1 << 40),
        _ => (1u64 << 61) + r.below(1 << 60),
    };
    let trading0 = !r.chance(p.start_halted);
    let cfg = W1Cfg {
        property: prop.to_string(),
        market,
        assets,
        levels,
        ticks: ticks.clone(),
        t0,
        trading0,
        discipline: p.discipline,
        allow_offgrid_create: p.w[11] > 0,
        allow_offgrid_modify: p.offgrid_modify_last > 0.0,
        monitors: p.monitors,
        tie: Tie::Fifo,
    };
    let alph: Vec<Vec<u32>> = ticks.iter().map(|t| make_alphabet(&mut r, *t, alpha_kind)).collect();
    // C07, rarely: a long history of mostly passive orders, so that the snapshot file passes 1 MiB (buffered / chunked
    // readers and writers) before it is written, reloaded and driven on
    let big_file = prop == "C07" && r.chance(0.0008);
    // (up to 9000 operations: the order table passes 4096 records in the longer ones)
    let len = if big_file {
        r.range(3000, 9000)
    } else if r.chance(0.8) {
        r.range(3, 40)
    } else {
        r.range(41, p.max_len as u64)
    } as usize;
    let mut gcfg = cfg.clone();
    gcfg.monitors = 0;
    let mut gex = Exec::new(&gcfg);
    gex.model_only = true;
    let mut g = Gen { r: &mut r, p: &p, alph, vol_kind, ex: gex, ops: vec![] };
    // per-run weights: swarm — randomly knock out some op kinds
    let mut w = p.w;
    for k in [2usize, 3, 6, 8, 9] {
        if g.r.chance(0.25) {
            w[k] = 0;
        }
    }
    if big_file {
        w = [60, 6, 1, 1, 2, 2, 0, 22, 0, 0, 0, 0];
    }
    while g.ops.len() < len {
        match g.r.weighted(&w) {
            0 => g.maker(),
            1 => g.taker(),
            2 => g.create_only(),
            3 => g.place(),
            4 => g.cancel(),
            5 => g.modify(false),
            6 => g.duplicate(),
            7 => g.tick(),
            8 => {
                // market-wide switch, or (markets) the switch of one asset's book; a quarter of the requests are redundant
                // (disable while disabled, enable while enabled): the switch is a flag, not a counter
                if g.ex.cfg.market && g.r.chance(0.3) {
                    let a = g.pick_asset();
                    let cur = g.ex.trading_a[a];
                    let on = if g.r.chance(0.25) { cur } else { !cur };
                    g.push(Op::TradingAsset { a, on })
                } else {
                    let cur = g.ex.trading;
                    let on = if g.r.chance(0.25) { cur } else { !cur };
                    g.push(Op::Trading { on })
                }
            }
            9 => g.push(Op::ResetTradeVol),
            10 => g.snapshot(),
            _ => g.offgrid_create(),
        }
    }
    // rarely the history ends at the top of the clock's domain: a jump to 2^64 - 1 (or just below, then stepping up to it),
    // followed by a few operations at the last representable instants (the clock never moves backwards; an order that
    // ends there ends at a time equal to the "no end yet" value of the record)
    if w[7] > 0 && !big_file && g.r.chance(0.03) {
        let back = g.r.below(3) as u8;
        g.push(Op::TickTop { back });
        for _ in 0..g.r.range(2, 8) {
            match g.r.below(8) {
                0..=2 => g.taker(),
                3 | 4 => g.maker(),
                5 => g.cancel(),
                6 => g.modify(false),
                _ => g.push(Op::Tick { dt: 1 }),
            }
        }
        g.ops.retain(|_| true);
    }
    if p.offgrid_modify_last > 0.0 && g.r.chance(p.offgrid_modify_last) {
        let a = g.pick_asset();
        if let Some(ord) = g.pick_order(a, Some(ACTIVE)) {
            let tick = g.ex.cfg.ticks[a];
            if tick > 1 {
                let cur = g.model(a).orders[ord].o;
                let np = (cur.price / tick * tick).saturating_add(1 + g.r.below(tick as u64 - 1) as u32).min(PMAX - 1);
                let vol = if g.r.chance(0.5) { None } else { Some(cur.vol) };
                g.ops.push(Op::Modify { a, ord, price: Some(np), vol });
            }
        }
    } else if p.drain {
        if big_file {
            // the large snapshot: through a file, pretty or compact, crash-restart, then a continuation that trades
            let how = if g.r.chance(0.8) { 3 } else { 2 };
            let lv = g.ex.cfg.levels;
            g.push(Op::Snapshot { how, into_levels: lv, keep: false, truncate: false });
            g.taker();
            let a = g.pick_asset();
            g.push(Op::CreatePlace { a, bid: true, vol: 1, trader: 300, price: None });
        }
        g.ops.push(Op::Drain);
    }
    let ops = std::mem::take(&mut g.ops);
    W1Scn { cfg, ops }
}
