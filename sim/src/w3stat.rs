//! C15: the processing order within a step is an unbiased shuffle driven only by the supplied generator.
//! Deterministic part per run (same generator state and batch size => same permutation, whatever the
//! instructions are); statistical part over all runs of a batch (exact Bernstein bound + union bound).
use crate::api::*;
use crate::core::*;
use crate::obs::*;
use crate::rng::{mix, SeamRng, SimRng};
use serde::{Deserialize, Serialize};

pub const SIZES: [usize; 9] = [2, 3, 4, 5, 6, 8, 16, 32, 64];
pub const STEPS_PER_RUN: usize = 50;
/// large batches (every 12th run, 6 steps each): beyond any small-buffer / block / chunk size. The n x n tables are out of
/// reach there; three single-cell statistics per size are tested instead (see `execute`).
pub const LARGE_SIZES: [usize; 4] = [1000, 9000, 12288, 16385];
pub const LARGE_STEPS_PER_RUN: usize = 6;

#[derive(Clone, Debug, Serialize, Deserialize, PartialEq)]
pub struct StatScn {
    pub property: String,
    pub n: usize,
    pub steps: usize,
    pub seed: u64,
    /// fresh generator per step (seeded from `seed` and the step index) or consecutive steps on one generator
    pub fresh: bool,
    /// shape of the second environment: multi-asset?
    pub market_b: bool,
    pub assets_b: usize,
    /// step sizes of the two environments (a step size below the batch size makes every step oversized: the order in
    /// which a batch is processed must not depend on that either)
    #[serde(default = "default_step")]
    pub step_a: u64,
    #[serde(default = "default_step")]
    pub step_b: u64,
}

fn default_step() -> u64 {
    1000
}

pub fn generate(prop: &str, seed: u64, run_index: u64) -> StatScn {
    let mut r = SimRng::new(seed ^ 0xC15);
    let market_b = r.chance(0.5);
    let large = run_index % 12 == 11;
    StatScn {
        property: prop.to_string(),
        n: if large { LARGE_SIZES[((run_index / 12) % LARGE_SIZES.len() as u64) as usize] } else { SIZES[(run_index % SIZES.len() as u64) as usize] },
        steps: if large { LARGE_STEPS_PER_RUN } else { STEPS_PER_RUN },
        seed: r.next(),
        fresh: r.chance(0.5),
        market_b,
        assets_b: if market_b { r.range(1, 4) as usize } else { 1 },
        step_a: *r.pick(&[1000u64, 1000, 1000, 4, 1, 100_000]),
        step_b: *r.pick(&[1000u64, 1000, 7, 2, 1_000_000]),
    }
}

fn factorial(n: usize) -> usize {
    (1..=n).product()
}

/// rank of a permutation in lexicographic order (Lehmer code)
fn perm_rank(p: &[usize]) -> usize {
    let n = p.len();
    let mut rank = 0;
    for i in 0..n {
        let smaller = p[i + 1..].iter().filter(|x| **x < p[i]).count();
        rank = rank * (n - i) + smaller;
    }
    rank
}

pub fn execute(s: &StatScn) -> RunOutcome {
    let mut stats = RunStats::default();
    let n = s.n;
    let mk = |class: &str, step: usize, field: &str, exp: String, act: String| Violation::new(&s.property, class, step, field, exp, act);
    let res = (|| -> Result<(), Violation> {
        let ticks = [1u32, 1, 1, 1];
        let mut env_a = guard(|| new_env(false, 1, 10, 0, &ticks, s.step_a, true)).map_err(|m| mk("panic", 0, "construction", "no abort".into(), m))?;
        // environment B differs in everything the order must not depend on: kind, assets, start time, instruction mix,
        // and (a quarter of the runs) it is halted: halted or not, the batch is shuffled by the generator
        let halted_b = s.seed % 4 == 0;
        let mut env_b = guard(|| new_env(s.market_b, s.assets_b, if s.market_b { 3 } else { 5 }, 7, &ticks, s.step_b, !halted_b)).map_err(|m| mk("panic", 0, "construction", "no abort".into(), m))?;
        if halted_b {
            stats.probe("environment_b_halted");
        }
        let mut rng_a = SeamRng::passthrough(s.seed);
        let mut rng_b = SeamRng::passthrough(s.seed);
        let mut h = SimRng::new(s.seed ^ 0xABCD);
        // pool of active orders of environment B (asset, id)
        let mut pool: Vec<(usize, usize)> = vec![];
        for step in 0..s.steps {
            if s.fresh {
                let sd = mix(s.seed, step as u64 + 1);
                rng_a = SeamRng::passthrough(sd);
                rng_b = SeamRng::passthrough(sd);
            }
            // ---- A: n new passive limit orders on one book
            let start_a = env_a.time();
            let mut ids_a = vec![];
            for k in 0..n {
                let r = env_a.place(0, true, 1, k as u32, Some(100 + k as u32)).map_err(|e| mk("panic", step, "place", "Ok".into(), e))?;
                ids_a.push(r.1);
            }
            {
                let e = &mut env_a;
                let r = &mut rng_a;
                guard(move || e.step(r)).map_err(|m| mk("panic", step, "step", "no abort".into(), m))?;
            }
            let oa = env_a.env_orders(0);
            let perm_a: Vec<usize> = ids_a.iter().map(|id| oa[*id].arr.wrapping_sub(start_a) as usize).collect();
            // ---- B: same batch size, different content (cancels of resting orders mixed with new orders, several assets)
            let start_b = env_b.time();
            let n_cancel = h.usize(pool.len().min(n) + 1);
            let mut kinds: Vec<bool> = (0..n).map(|k| k < n_cancel).collect(); // true = cancel
            h.shuffle(&mut kinds);
            let mut items: Vec<(usize, usize, bool)> = vec![];
            // at most one instruction per batch whose position leaves no trace (a cancel / modify of an order placed in
            // the same batch, when processed before the placement): its position is the one nobody else took
            let mut same_step: Option<usize> = if n >= 3 && h.chance(0.3) { Some(h.usize(n - 1)) } else { None };
            let mut blind: Option<usize> = None; // index into items
            // the trading switch flipped and flipped back in the middle of the submissions (a third of the steps): the flag
            // that counts is the one at step time, and the order of processing has nothing to do with it
            let flips: Option<(usize, usize)> = if n >= 3 && h.chance(0.33) {
                let k1 = 1 + h.usize(n - 2);
                let k2 = k1 + 1 + h.usize(n - 1 - k1);
                Some((k1, k2))
            } else {
                None
            };
            for (slot, is_cancel) in kinds.into_iter().enumerate() {
                if let Some((k1, k2)) = flips {
                    if slot == k1 {
                        if halted_b {
                            env_b.enable_trading()
                        } else {
                            env_b.disable_trading()
                        }
                        stats.probe("switch_flipped_mid_submission");
                    }
                    if slot == k2 {
                        if halted_b {
                            env_b.disable_trading()
                        } else {
                            env_b.enable_trading()
                        }
                    }
                }
                if let (Some(at), Some(&(a, id, false))) = (same_step, items.last()) {
                    if slot > at {
                        // aimed at the order submitted just before it
                        if h.chance(0.5) {
                            env_b.cancel(a, id);
                        } else {
                            env_b.modify(a, id, Some(45), None);
                        }
                        blind = Some(items.len());
                        items.push((a, id, true));
                        same_step = None;
                        stats.probe("same_step_cancel_or_modify");
                        continue;
                    }
                }
                if is_cancel {
                    let (a, id) = pool.swap_remove(h.usize(pool.len()));
                    env_b.cancel(a, id);
                    items.push((a, id, true));
                } else {
                    let a = h.usize(s.assets_b);
                    // (a fifth of the new orders are market orders: no resting asks, so they are cancelled / rejected at their
                    // position - their arrival time pins it like that of any other new order)
                    let price = if h.chance(0.2) { None } else { Some(50 + h.below(40) as u32) };
                    let r = env_b.place(a, true, 1 + h.below(5) as u32, 9, price).map_err(|e| mk("panic", step, "place", "Ok".into(), e))?;
                    items.push((r.0, r.1, false));
                }
            }
            {
                let e = &mut env_b;
                let r = &mut rng_b;
                guard(move || e.step(r)).map_err(|m| mk("panic", step, "step", "no abort".into(), m))?;
            }
            let ob: Vec<Vec<OOrder>> = (0..s.assets_b).map(|a| env_b.env_orders(a)).collect();
            let mut perm_b = vec![];
            for (k, (a, id, is_cancel)) in items.iter().enumerate() {
                let o = &ob[*a][*id];
                if blind == Some(k) {
                    perm_b.push(usize::MAX); // filled in below
                    continue;
                }
                if *is_cancel {
                    if o.status != CANCELLED {
                        return Err(mk("no-schedule-explains", step, "cancelled order", "Cancelled".into(), format!("{:?}", o)));
                    }
                    perm_b.push(o.end.wrapping_sub(start_b) as usize);
                } else {
                    perm_b.push(o.arr.wrapping_sub(start_b) as usize);
                    if o.status == ACTIVE {
                        pool.push((*a, *id));
                    }
                }
            }
            if let Some(k) = blind {
                // the untraceable instruction took the one position nobody else has
                let mut taken = vec![false; n];
                for x in perm_b.iter() {
                    if *x < n {
                        taken[*x] = true;
                    }
                }
                let mut free: Vec<usize> = (0..n).filter(|p| !taken[*p]).collect();
                if free.len() != 1 {
                    return Err(mk("no-schedule-explains", step, "positions (B)", format!("a permutation of 0..{}", n), format!("{:?}", perm_b)));
                }
                perm_b[k] = free.pop().unwrap();
                // the order it was aimed at may have been cancelled / re-priced by it: keep the pool consistent
                let (a, id, _) = items[k];
                pool.retain(|x| *x != (a, id));
                if ob[a][id].status == ACTIVE {
                    pool.push((a, id));
                }
            }
            for (name, p) in [("A", &perm_a), ("B", &perm_b)] {
                let mut seen = vec![false; n];
                if !p.iter().all(|x| *x < n && !std::mem::replace(&mut seen[*x], true)) {
                    return Err(mk("no-schedule-explains", step, &format!("positions ({})", name), format!("a permutation of 0..{}", n), format!("{:?}", p)));
                }
            }
            // same generator state + same batch size => same permutation, whatever the instructions are
            if perm_a != perm_b && std::env::var("VERIF_C15_STAT_ONLY").is_err() {
                return Err(mk("schedule-content-dependent", step, "positions", format!("{:?}", perm_a), format!("{:?}", perm_b))
                    .detail("two environments given the same generator state and batch size processed their (different) instructions in different orders".into()));
            }
            stats.probe("content_independence_checked");
            // ---- tables
            let key = |t: &str| format!("{}_n{}", t, n);
            stats.table_add(&key("steps"), 1, 0, 1);
            if n > 64 {
                // large batches: one sample per step of three statistics whose exact probabilities under a uniform
                // permutation are known (one pair per step keeps the samples independent):
                //   nbrfar    two instructions submitted next to each other end up at least ceil(n/2) positions apart
                //             (p = (n-k)(n-k+1) / (n(n-1)), k = ceil(n/2)): any block-wise / windowed shuffle fails this
                //   firsthalf a seed-chosen instruction is processed in the first half (p = floor(n/2) / n)
                //   pair      of two seed-chosen instructions the earlier-submitted one is processed first (p = 1/2)
                let i = (mix(s.seed, 7000 + step as u64) % (n as u64 - 1)) as usize;
                let j = (mix(s.seed, 9000 + step as u64) % n as u64) as usize;
                let kk = (n + 1) / 2;
                let d = perm_a[i].abs_diff(perm_a[i + 1]);
                stats.table_add(&key("nbrfar"), 1, 0, (d >= kk) as u64);
                stats.table_add(&key("firsthalf"), 1, 0, (perm_a[j] < n / 2) as u64);
                if j != i {
                    let (a, b) = (i.min(j), i.max(j));
                    stats.table_add(&key("pair1"), 1, 0, (perm_a[a] < perm_a[b]) as u64);
                    stats.table_add(&key("pair1steps"), 1, 0, 1);
                }
                stats.probe("large_batch_statistics");
                stats.ops += 1;
                continue;
            }
            if n <= 6 {
                stats.table_add(&key("perm"), factorial(n), perm_rank(&perm_a), 1);
            }
            for (k, pos) in perm_a.iter().enumerate() {
                stats.table_add(&key("positem"), n * n, k * n + pos, 1);
            }
            let mut idx = 0;
            let np = n * (n - 1) / 2;
            for i in 0..n {
                for j in i + 1..n {
                    if perm_a[i] < perm_a[j] {
                        stats.table_add(&key("pair"), np, idx, 1);
                    } else {
                        stats.table_add(&key("pair"), np, idx, 0);
                    }
                    idx += 1;
                }
            }
            stats.ops += 1;
            let mut d = Fnv::new();
            d.u64(n as u64);
            for x in &perm_a {
                d.u64(*x as u64);
            }
            stats.set("permutations_seen", d.0);
        }
        stats.end_digest = {
            let mut d = Fnv::new();
            d.u64(s.seed);
            d.u64(n as u64);
            d.0
        };
        Ok(())
    })();
    stats.sim_time = stats.ops * s.step_a;
    if s.fresh {
        stats.probe_n("fresh_seed_steps", stats.ops);
    } else {
        stats.probe_n("consecutive_steps_one_generator", stats.ops);
    }
    RunOutcome { violation: res.err(), stats }
}

/// Exact Bernstein threshold: P(|X - Np| >= t) <= 2 exp(-t^2 / (2(Np(1-p) + t/3))) <= delta_cell
fn bernstein_t(n: f64, p: f64, log_term: f64) -> f64 {
    let v = n * p * (1.0 - p);
    log_term / 3.0 + (log_term * log_term / 9.0 + 2.0 * v * log_term).sqrt()
}

/// Statistical part, evaluated over the merged tables of a whole batch.
pub fn finalize(tables: &std::collections::BTreeMap<String, Vec<u64>>, prop: &str) -> (Option<Violation>, serde_json::Value) {
    let delta = 1e-9f64;
    // total number of cells tested (union bound)
    let mut cells_total = 0usize;
    for (k, v) in tables {
        if !k.starts_with("steps_") && !k.starts_with("pair1steps_") {
            cells_total += v.len();
        }
    }
    let log_term = (2.0 * cells_total.max(1) as f64 / delta).ln();
    let mut report = serde_json::Map::new();
    let mut worst: Option<(f64, Violation)> = None;
    for (k, v) in tables {
        if k.starts_with("steps_") || k.starts_with("pair1steps_") {
            continue;
        }
        let (kind, nn) = k.split_once("_n").unwrap();
        let n: usize = nn.parse().unwrap();
        let mut steps = tables.get(&format!("steps_n{}", n)).map(|t| t[0]).unwrap_or(0) as f64;
        let p = match kind {
            "perm" => 1.0 / factorial(n) as f64,
            "positem" => 1.0 / n as f64,
            "nbrfar" => {
                let kk = ((n + 1) / 2) as f64;
                let nf = n as f64;
                (nf - kk) * (nf - kk + 1.0) / (nf * (nf - 1.0))
            }
            "firsthalf" => (n / 2) as f64 / n as f64,
            "pair1" => {
                steps = tables.get(&format!("pair1steps_n{}", n)).map(|t| t[0]).unwrap_or(0) as f64;
                0.5
            }
            _ => 0.5,
        };
        let t = bernstein_t(steps, p, log_term);
        let expect = steps * p;
        let mut max_dev = 0.0f64;
        for (i, c) in v.iter().enumerate() {
            let dev = (*c as f64 - expect).abs();
            if dev > max_dev {
                max_dev = dev;
            }
            if dev > t {
                let ratio = dev / t;
                if worst.as_ref().map(|w| ratio > w.0).unwrap_or(true) {
                    worst = Some((
                        ratio,
                        Violation::new(prop, "schedule-biased", i, &format!("{}[{}]", k, i), format!("{:.1} +- {:.1} (N={} steps, p={:.6})", expect, t, steps, p), c.to_string())
                            .detail(format!("count outside the exact Bernstein bound; union bound over {} cells, false-alarm probability < {:e} per run", cells_total, delta)),
                    ));
                }
            }
        }
        report.insert(k.clone(), serde_json::json!({"cells": v.len(), "steps": steps, "expected_per_cell": expect, "threshold": t, "max_abs_deviation": max_dev}));
    }
    (worst.map(|w| w.1), serde_json::Value::Object(report))
}
