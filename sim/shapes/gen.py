#!/usr/bin/env python3
"""Generate a catalogue of agent-set struct shapes for C20.

usage: gen.py <seed> <count> <out.rs>

For each shape three things are emitted by *separate* code below:
  (1) the struct declarations with #[derive(AgentSet)] / #[derive(MarketAgentSet)]   (emit_structs)
  (2) the hand-written equivalent: one explicit call per leaf agent in declaration order (emit_manual)
  (3) the expected flat sequence of (tag, type) pairs                                  (flatten)
The Rust side compares log(derived) == log(manual) == sequence (3), draw by draw.
"""
import random, sys

NAMES = ["zeta", "alpha", "m3", "b", "yy", "agent_one", "k", "q9", "a", "w", "omega", "c2", "left", "right", "x", "n0", "r#type", "r#match", "_takers", "_inner", "__m"]

def make_shape(rng, idx, depth=0):
    """shape = list of fields; field = (name, ('leaf', ty, tag)) or (name, ('set', subshape))"""
    nf = rng.randint(1, 8) if depth == 0 else rng.randint(1, 3)
    names = rng.sample(NAMES, nf)
    fields = []
    for nm in names:
        if depth < 2 and rng.random() < (0.25 if depth == 0 else 0.15):
            fields.append((nm, ('set', make_shape(rng, idx, depth + 1))))
        else:
            fields.append((nm, ('leaf', rng.randint(0, 3), None)))
    return fields

def assign_tags(shape, counter):
    out = []
    for nm, f in shape:
        if f[0] == 'leaf':
            counter[0] += 1
            out.append((nm, ('leaf', f[1], counter[0])))
        else:
            out.append((nm, ('set', assign_tags(f[1], counter))))
    return out

def flatten(shape):
    seq = []
    for _, f in shape:
        if f[0] == 'leaf':
            seq.append((f[2], f[1]))
        else:
            seq.extend(flatten(f[1]))
    return seq

VIS = ["pub", "pub", "pub(crate)", "pub(super)", ""]

# other spellings of the probe types (aliases declared in probe.rs): type names and module paths whose spelling begins like a
# plain-data type (Option.., Vec.., String.., bool.., char.., str.., f32.., u8.., usize.., HashMap.., ...). A derive that
# looks at how a field's type is *spelled* must still treat them as the agents they are.
SPELL = ["OptionsDesk", "VectorisedMakers", "Stringer", "boolean_desk", "charting", "f32_desk", "u64_flow", "isize_mm",
         "HashMapped", "BTreeMapped", "PhantomDataDesk", "strategies::Trend", "charts::Follower", "u8x::Desk", "i128s::Desk",
         "usize_agents::Mm"]

def emit_structs(shape, name, derive, probe, out, srng, prefix=""):
    """declarations; nested sets get their own derived struct. The *syntax* of each declaration varies (srng):
    style 0 multi-line with trailing comma, 1 multi-line without a trailing comma after the last field, 2 on one line
    without trailing comma, 3 produced by a macro_rules! helper (no trailing comma), 4 mixed field visibilities."""
    style = srng.randint(0, 4)
    fields = []
    for k, (nm, f) in enumerate(shape):
        attrs = []
        # attributes and doc comments on fields must not change anything (deterministic choice from the names)
        h = (sum(map(ord, nm)) * 31 + k * 7 + len(name)) % 10
        if h == 0:
            attrs.append(f"/// documented agent field {nm}")
        elif h == 1:
            attrs.append("#[allow(dead_code)]")
        elif h == 2:
            attrs.append("#[cfg(all())]")
        vis = srng.choice(VIS) if style == 4 else "pub"
        if f[0] == 'leaf':
            ty = f"{probe}<{f[1]}>"
            if srng.random() < 0.15:
                ty = f"{srng.choice(SPELL)}<{f[1]}>"
        else:
            ty = f"{prefix}{name}_n{k}"
            emit_structs(f[1], f"{name}_n{k}", derive, probe, out, srng, prefix)
        fields.append((attrs, (vis + " " if vis else "") + f"{nm}: {ty}"))
    head = f"    #[derive({derive})]\n    #[allow(non_camel_case_types, dead_code)]\n"
    sname = prefix + name
    if style in (0, 4):
        body = "\n".join("".join(f"        {a}\n" for a in at) + f"        {fd}," for at, fd in fields)
        out.append(head + f"    pub struct {sname} {{\n{body}\n    }}")
    elif style == 1:
        body = ",\n".join("".join(f"        {a}\n" for a in at) + f"        {fd}" for at, fd in fields)
        out.append(head + f"    pub struct {sname} {{\n{body}\n    }}")
    elif style == 2:
        # one line: doc comments become #[doc] attributes so that the line stays one line
        body = ", ".join("".join((f'#[doc = "{a[4:]}"] ' if a.startswith("///") else a + " ") for a in at) + fd for at, fd in fields)
        out.append(head + f"    pub struct {sname} {{ {body} }}")
    else:
        body = ",\n".join("".join(f"            {a}\n" for a in at) + f"            {fd}" for at, fd in fields)
        out.append(f"    decl_set! {{\n        #[derive({derive})]\n        #[allow(non_camel_case_types, dead_code)]\n        pub struct {sname} {{\n{body}\n        }}\n    }}")

def emit_build(shape, name, probe, prefix=""):
    parts = []
    for k, (nm, f) in enumerate(shape):
        if f[0] == 'leaf':
            parts.append(f"{nm}: {probe}::new({f[2]}, log)")
        else:
            parts.append(f"{nm}: {emit_build(f[1], f'{name}_n{k}', probe, prefix)}")
    return f"{prefix}{name} {{ " + ", ".join(parts) + " }"

def emit_manual(shape, path, trait):
    calls = []
    for nm, f in shape:
        if f[0] == 'leaf':
            calls.append(f"        {trait}::update(&mut {path}.{nm}, env, rng);")
        else:
            calls.extend(emit_manual(f[1], f"{path}.{nm}", trait))
    return calls

def main():
    seed, count, outp = int(sys.argv[1]), int(sys.argv[2]), sys.argv[3]
    rng = random.Random(seed)
    o = [f"// generated by shapes/gen.py seed={seed} count={count} -- do not edit",
         "#![allow(clippy::all)]",
         "use crate::probe::*;", "use crate::rng::SeamRng;", "",
         f"pub const CATALOGUE_SEED: u64 = {seed};", f"pub const CATALOGUE_COUNT_PER_MACRO: usize = {count};", ""]
    for kind in ("env", "mkt"):
        derive = "AgentSet" if kind == "env" else "MarketAgentSet"
        probe = "Probe" if kind == "env" else "MProbe"
        leaf_trait = "Agent" if kind == "env" else "MarketAgent"
        o.append(f"pub mod {kind}_shapes {{")
        o.append("    use super::*;")
        if kind == "env":
            o.append("    use bourse_de::agents::{Agent, AgentSet};\n    use bourse_de::Env;\n    #[allow(unused_imports)]\n    use crate::probe::env_spell::*;")
        else:
            o.append("    use bourse_de::agents::{MarketAgent, MarketAgentSet};\n    use bourse_de::MarketEnv;\n    #[allow(unused_imports)]\n    use crate::probe::mkt_spell::*;")
        o.append("    #[allow(unused_macros)]\n    macro_rules! decl_set {\n        ($(#[$m:meta])* $v:vis struct $n:ident { $($(#[$fm:meta])* $fv:vis $f:ident : $t:ty),* }) => {\n            $(#[$m])* $v struct $n { $($(#[$fm])* $fv $f : $t),* }\n        };\n    }")
        entries = []
        shapes = []
        srng = random.Random(seed * 7919 + (1 if kind == "env" else 2))

        def emit_shape(o, shape, name, label, path, prefix=""):
            ind = ""
            sname = prefix + name
            structs = []
            emit_structs(shape, name, derive, probe, structs, srng, prefix)
            o.extend(structs)
            seq = flatten(shape)
            o.append(f"    pub const EXPECT_{name}: &[(u32, u8)] = &[{', '.join(f'({t}, {ty})' for t, ty in seq)}];")
            o.append(f"    pub fn build_{name}(log: &Log) -> {sname} {{\n        {emit_build(shape, name, probe, prefix)}\n    }}")
            if kind == "env":
                o.append(f"    pub fn manual_{name}(s: &mut {sname}, env: &mut Env, rng: &mut SeamRng) {{")
                o.extend(emit_manual(shape, "s", leaf_trait))
                o.append("    }")
                o.append(f"    pub fn run_{name}(derived: bool, seed: u64, calls: usize) -> Vec<Rec> {{\n        let log = new_log();\n        let mut s = build_{name}(&log);\n        let mut env = Env::new(0, 1, if seed % 3 == 0 {{ 1 }} else {{ 1000 }}, true);\n        let mut rng = plan_rng(seed);\n        for _ in 0..calls {{\n            plan_call(|| if derived {{\n                AgentSet::update(&mut s, &mut env, &mut rng);\n            }} else {{\n                manual_{name}(&mut s, &mut env, &mut rng);\n            }});\n        }}\n        take_log(&log)\n    }}")
            else:
                o.append(f"    pub fn manual_{name}<const A: usize, const L: usize>(s: &mut {sname}, env: &mut MarketEnv<A, L>, rng: &mut SeamRng) {{")
                o.extend(emit_manual(shape, "s", leaf_trait))
                o.append("    }")
                o.append(f"    pub fn run_{name}<const A: usize, const L: usize>(derived: bool, seed: u64, calls: usize) -> Vec<Rec> {{\n        let log = new_log();\n        let mut s = build_{name}(&log);\n        let mut env = MarketEnv::<A, L>::new(0, [1; A], if seed % 3 == 0 {{ 1 }} else {{ 1000 }}, true);\n        let mut rng = plan_rng(seed);\n        for _ in 0..calls {{\n            plan_call(|| if derived {{\n                MarketAgentSet::update(&mut s, &mut env, &mut rng);\n            }} else {{\n                manual_{name}(&mut s, &mut env, &mut rng);\n            }});\n        }}\n        take_log(&log)\n    }}")
            nested = any(f[0] == 'set' for _, f in shape)
            repeated = len(set(ty for _, ty in seq)) < len(seq)
            entries.append((label, path, name, len(shape), len(seq), nested, repeated))

        for i in range(count):
            shape = assign_tags(make_shape(rng, i), [0])
            shapes.append(shape)
            name = f"{'E' if kind == 'env' else 'M'}{i}"
            emit_shape(o, shape, name, name, "")
        # the same struct identifier declared a second time, in a sub-module, with the same field names in another order
        # (plus extra fields): each declaration must get the implementation of its OWN field list
        for j in range(max(1, count // 4)):
            bi = (j * 4 + 1) % count
            base = shapes[bi]
            fields = [(nm, f) for nm, f in base]
            if len(fields) >= 2:
                perm = fields[:]
                while perm == fields:
                    srng.shuffle(perm)
                fields = perm
            used = {nm for nm, _ in fields}
            for nm in [n for n in NAMES if n not in used][:srng.randint(0, 2)]:
                fields.insert(srng.randint(0, len(fields)), (nm, ('leaf', srng.randint(0, 3), None)))
            # nested sets of the base are replaced by leaves: only the top-level identifier is shared
            fields = [(nm, f if f[0] == 'leaf' else ('leaf', srng.randint(0, 3), None)) for nm, f in fields]
            shape = assign_tags(fields, [0])
            name = f"{'E' if kind == 'env' else 'M'}{bi}"
            o.append(f"    pub mod dup{j} {{\n    use super::*;")
            emit_shape(o, shape, name, f"{name}@dup{j}", f"dup{j}::")
            o.append("    }")
        # a set whose hand-written member owns further values of the SAME derived type (re-entrancy)
        rn = "ERec" if kind == "env" else "MRec"
        kids = "Kids" if kind == "env" else "MKids"
        o.append(f"    #[derive({derive})]\n    pub struct {rn} {{\n        pub head: {probe}<0>,\n        pub kids: {kids}<{rn}>,\n        pub tail: {probe}<1>,\n    }}")
        o.append(f"    pub const EXPECT_{rn}: &[(u32, u8)] = &[(1, 0), (2, 0), (3, 0), (4, 1), (5, 1), (6, 0), (7, 1), (8, 1)];")
        o.append(f"    pub fn build_{rn}(log: &Log) -> {rn} {{\n        let leaf = |h: u32, t: u32| {rn} {{ head: {probe}::new(h, log), kids: {kids}(vec![]), tail: {probe}::new(t, log) }};\n        let c1 = {rn} {{ head: {probe}::new(2, log), kids: {kids}(vec![leaf(3, 4)]), tail: {probe}::new(5, log) }};\n        {rn} {{ head: {probe}::new(1, log), kids: {kids}(vec![c1, leaf(6, 7)]), tail: {probe}::new(8, log) }}\n    }}")
        if kind == "env":
            o.append(f"    pub fn manual_{rn}(s: &mut {rn}, env: &mut Env, rng: &mut SeamRng) {{\n        {leaf_trait}::update(&mut s.head, env, rng);\n        for k in s.kids.0.iter_mut() {{\n            manual_{rn}(k, env, rng);\n        }}\n        {leaf_trait}::update(&mut s.tail, env, rng);\n    }}")
            o.append(f"    pub fn run_{rn}(derived: bool, seed: u64, calls: usize) -> Vec<Rec> {{\n        let log = new_log();\n        let mut s = build_{rn}(&log);\n        let mut env = Env::new(0, 1, if seed % 3 == 0 {{ 1 }} else {{ 1000 }}, true);\n        let mut rng = plan_rng(seed);\n        for _ in 0..calls {{\n            plan_call(|| if derived {{\n                AgentSet::update(&mut s, &mut env, &mut rng);\n            }} else {{\n                manual_{rn}(&mut s, &mut env, &mut rng);\n            }});\n        }}\n        take_log(&log)\n    }}")
        else:
            o.append(f"    pub fn manual_{rn}<const A: usize, const L: usize>(s: &mut {rn}, env: &mut MarketEnv<A, L>, rng: &mut SeamRng) {{\n        {leaf_trait}::update(&mut s.head, env, rng);\n        for k in s.kids.0.iter_mut() {{\n            manual_{rn}(k, env, rng);\n        }}\n        {leaf_trait}::update(&mut s.tail, env, rng);\n    }}")
            o.append(f"    pub fn run_{rn}<const A: usize, const L: usize>(derived: bool, seed: u64, calls: usize) -> Vec<Rec> {{\n        let log = new_log();\n        let mut s = build_{rn}(&log);\n        let mut env = MarketEnv::<A, L>::new(0, [1; A], if seed % 3 == 0 {{ 1 }} else {{ 1000 }}, true);\n        let mut rng = plan_rng(seed);\n        for _ in 0..calls {{\n            plan_call(|| if derived {{\n                MarketAgentSet::update(&mut s, &mut env, &mut rng);\n            }} else {{\n                manual_{rn}(&mut s, &mut env, &mut rng);\n            }});\n        }}\n        take_log(&log)\n    }}")
        entries.append((rn + "@recursive", "", rn, 3, 8, True, True))
        o.append("}")
        o.append("")
        # catalogue table
        if kind == "env":
            o.append("pub fn catalogue_env() -> Vec<ShapeEntry> {\n    vec![")
            for label, path, name, nf, nl, nested, rep in entries:
                o.append(f"        ShapeEntry {{ name: \"{label}\", fields: {nf}, leaves: {nl}, nested: {str(nested).lower()}, repeated_types: {str(rep).lower()}, expect: env_shapes::{path}EXPECT_{name}, run: [env_shapes::{path}run_{name}, env_shapes::{path}run_{name}, env_shapes::{path}run_{name}] }},")
            o.append("    ]\n}")
        else:
            o.append("pub fn catalogue_mkt() -> Vec<ShapeEntry> {\n    vec![")
            for label, path, name, nf, nl, nested, rep in entries:
                o.append(f"        ShapeEntry {{ name: \"{label}\", fields: {nf}, leaves: {nl}, nested: {str(nested).lower()}, repeated_types: {str(rep).lower()}, expect: mkt_shapes::{path}EXPECT_{name}, run: [mkt_shapes::{path}run_{name}::<1, 10>, mkt_shapes::{path}run_{name}::<2, 3>, mkt_shapes::{path}run_{name}::<3, 1>] }},")
            o.append("    ]\n}")
        o.append("")
    open(outp, "w").write("\n".join(o) + "\n")

if __name__ == "__main__":
    main()
