; ModuleID = 'probe5.139ddb43b099e327-cgu.0'
source_filename = "probe5.139ddb43b099e327-cgu.0"
target datalayout = "e-m:e-p270:32:32-p271:32:32-p272:64:64-i64:64-i128:128-f80:128-n8:16:32:64-S128"
target triple = "x86_64-unknown-linux-gnu"

; core::f64::<impl f64>::is_subnormal
; Function Attrs: inlinehint nonlazybind uwtable
define internal zeroext i1 @"_ZN4core3f6421_$LT$impl$u20$f64$GT$12is_subnormal17h6fb846f6dea1ceddE"(double %self) unnamed_addr #0 {
start:
  %_2 = alloca [1 x i8], align 1
  %b = bitcast double %self to i64
  %_5 = and i64 %b, 4503599627370495
  %_6 = and i64 %b, 9218868437227405312
  %0 = icmp eq i64 %_5, 0
  br i1 %0, label %bb2, label %bb8

bb2:                                              ; preds = %start
  %1 = icmp eq i64 %_6, 9218868437227405312
  br i1 %1, label %bb7, label %bb9

bb8:                                              ; preds = %start
  switch i64 %_6, label %bb3 [
    i64 9218868437227405312, label %bb6
    i64 0, label %bb4
  ]

bb7:                                              ; preds = %bb2
  store i8 1, ptr %_2, align 1
  br label %bb1

bb9:                                              ; preds = %bb2
  switch i64 %_6, label %bb3 [
    i64 9218868437227405312, label %bb6
    i64 0, label %bb5
  ]

bb1:                                              ; preds = %bb3, %bb4, %bb6, %bb5, %bb7
  %2 = load i8, ptr %_2, align 1
  %_3 = zext i8 %2 to i64
  %_0 = icmp eq i64 %_3, 3
  ret i1 %_0

bb3:                                              ; preds = %bb8, %bb9
  store i8 4, ptr %_2, align 1
  br label %bb1

bb6:                                              ; preds = %bb8, %bb9
  store i8 0, ptr %_2, align 1
  br label %bb1

bb5:                                              ; preds = %bb9
  store i8 2, ptr %_2, align 1
  br label %bb1

bb4:                                              ; preds = %bb8
  store i8 3, ptr %_2, align 1
  br label %bb1
}

; probe5::probe
; Function Attrs: nonlazybind uwtable
define void @_ZN6probe55probe17h123bb80618fac728E() unnamed_addr #1 {
start:
; call core::f64::<impl f64>::is_subnormal
  %_1 = call zeroext i1 @"_ZN4core3f6421_$LT$impl$u20$f64$GT$12is_subnormal17h6fb846f6dea1ceddE"(double 1.000000e+00) #2
  ret void
}

attributes #0 = { inlinehint nonlazybind uwtable "probe-stack"="inline-asm" "target-cpu"="x86-64" }
attributes #1 = { nonlazybind uwtable "probe-stack"="inline-asm" "target-cpu"="x86-64" }
attributes #2 = { inlinehint }

!llvm.module.flags = !{!0, !1}
!llvm.ident = !{!2}

!0 = !{i32 8, !"PIC Level", i32 2}
!1 = !{i32 2, !"RtLibUseGOT", i32 1}
!2 = !{!"rustc version 1.95.0 (59807616e 2026-04-14)"}
