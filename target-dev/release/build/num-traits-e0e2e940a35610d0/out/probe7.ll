; ModuleID = 'probe7.ec2f88c67c612580-cgu.0'
source_filename = "probe7.ec2f88c67c612580-cgu.0"
target datalayout = "e-m:e-p270:32:32-p271:32:32-p272:64:64-i64:64-i128:128-f80:128-n8:16:32:64-S128"
target triple = "x86_64-unknown-linux-gnu"

; core::num::<impl u32>::to_ne_bytes
; Function Attrs: inlinehint nonlazybind uwtable
define internal i32 @"_ZN4core3num21_$LT$impl$u20$u32$GT$11to_ne_bytes17h6c07e83bbd078c13E"(i32 %self) unnamed_addr #0 {
start:
  %_0 = alloca [4 x i8], align 1
  store i32 %self, ptr %_0, align 1
  %0 = load i32, ptr %_0, align 1
  ret i32 %0
}

; probe7::probe
; Function Attrs: nonlazybind uwtable
define void @_ZN6probe75probe17h4164f5d78b36d385E() unnamed_addr #1 {
start:
  %0 = alloca [4 x i8], align 4
  %_1 = alloca [4 x i8], align 1
; call core::num::<impl u32>::to_ne_bytes
  %1 = call i32 @"_ZN4core3num21_$LT$impl$u20$u32$GT$11to_ne_bytes17h6c07e83bbd078c13E"(i32 1) #3
  store i32 %1, ptr %0, align 4
  call void @llvm.memcpy.p0.p0.i64(ptr align 1 %_1, ptr align 4 %0, i64 4, i1 false)
  ret void
}

; Function Attrs: nocallback nofree nounwind willreturn memory(argmem: readwrite)
declare void @llvm.memcpy.p0.p0.i64(ptr noalias writeonly captures(none), ptr noalias readonly captures(none), i64, i1 immarg) #2

attributes #0 = { inlinehint nonlazybind uwtable "probe-stack"="inline-asm" "target-cpu"="x86-64" }
attributes #1 = { nonlazybind uwtable "probe-stack"="inline-asm" "target-cpu"="x86-64" }
attributes #2 = { nocallback nofree nounwind willreturn memory(argmem: readwrite) }
attributes #3 = { inlinehint }

!llvm.module.flags = !{!0, !1}
!llvm.ident = !{!2}

!0 = !{i32 8, !"PIC Level", i32 2}
!1 = !{i32 2, !"RtLibUseGOT", i32 1}
!2 = !{!"rustc version 1.95.0 (59807616e 2026-04-14)"}
