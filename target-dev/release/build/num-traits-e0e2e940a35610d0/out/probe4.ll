; ModuleID = 'probe4.f51004f11f9b7ff5-cgu.0'
source_filename = "probe4.f51004f11f9b7ff5-cgu.0"
target datalayout = "e-m:e-p270:32:32-p271:32:32-p272:64:64-i64:64-i128:128-f80:128-n8:16:32:64-S128"
target triple = "x86_64-unknown-linux-gnu"

@alloc_7971f3465817cc18ad816e3dbdd7087a = private unnamed_addr constant [7 x i8] c"<anon>\00", align 1
@alloc_9d40747e106cbf85f7bd532d58745d14 = private unnamed_addr constant <{ ptr, [16 x i8] }> <{ ptr @alloc_7971f3465817cc18ad816e3dbdd7087a, [16 x i8] c"\06\00\00\00\00\00\00\00\01\00\00\00\1F\00\00\00" }>, align 8

; probe4::probe
; Function Attrs: nonlazybind uwtable
define void @_ZN6probe45probe17h3f511780d68fe224E() unnamed_addr #0 {
start:
  ret void
}

; core::panicking::panic_const::panic_const_div_by_zero
; Function Attrs: cold noinline noreturn nonlazybind uwtable
declare void @_RNvNtNtCsgEmfK2I1SDS_4core9panicking11panic_const23panic_const_div_by_zero(ptr align 8) unnamed_addr #1

attributes #0 = { nonlazybind uwtable "probe-stack"="inline-asm" "target-cpu"="x86-64" }
attributes #1 = { cold noinline noreturn nonlazybind uwtable "probe-stack"="inline-asm" "target-cpu"="x86-64" }

!llvm.module.flags = !{!0, !1}
!llvm.ident = !{!2}

!0 = !{i32 8, !"PIC Level", i32 2}
!1 = !{i32 2, !"RtLibUseGOT", i32 1}
!2 = !{!"rustc version 1.95.0 (59807616e 2026-04-14)"}
