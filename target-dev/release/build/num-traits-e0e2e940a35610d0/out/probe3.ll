; ModuleID = 'probe3.6dff55da12ad9493-cgu.0'
source_filename = "probe3.6dff55da12ad9493-cgu.0"
target datalayout = "e-m:e-p270:32:32-p271:32:32-p272:64:64-i64:64-i128:128-f80:128-n8:16:32:64-S128"
target triple = "x86_64-unknown-linux-gnu"

; probe3::probe
; Function Attrs: nonlazybind uwtable
define void @_ZN6probe35probe17hc64362371ffdd22bE() unnamed_addr #0 {
start:
  %0 = alloca [4 x i8], align 4
  store i32 1, ptr %0, align 4
  %_0.i = load i32, ptr %0, align 4
  ret void
}

; Function Attrs: nocallback nofree nosync nounwind speculatable willreturn memory(none)
declare i32 @llvm.cttz.i32(i32, i1 immarg) #1

attributes #0 = { nonlazybind uwtable "probe-stack"="inline-asm" "target-cpu"="x86-64" }
attributes #1 = { nocallback nofree nosync nounwind speculatable willreturn memory(none) }

!llvm.module.flags = !{!0, !1}
!llvm.ident = !{!2}

!0 = !{i32 8, !"PIC Level", i32 2}
!1 = !{i32 2, !"RtLibUseGOT", i32 1}
!2 = !{!"rustc version 1.95.0 (59807616e 2026-04-14)"}
