; ModuleID = 'probe0.c4a03c8a7acda30-cgu.0'
source_filename = "probe0.c4a03c8a7acda30-cgu.0"
target datalayout = "e-m:e-p270:32:32-p271:32:32-p272:64:64-i64:64-i128:128-f80:128-n8:16:32:64-S128"
target triple = "x86_64-unknown-linux-gnu"

!llvm.module.flags = !{!0, !1}
!llvm.ident = !{!2}

!0 = !{i32 8, !"PIC Level", i32 2}
!1 = !{i32 2, !"RtLibUseGOT", i32 1}
!2 = !{!"rustc version 1.95.0 (59807616e 2026-04-14)"}
