; ModuleID = 'probe1.103258e1af9ac305-cgu.0'
source_filename = "probe1.103258e1af9ac305-cgu.0"
target datalayout = "e-m:e-p270:32:32-p271:32:32-p272:64:64-i64:64-i128:128-f80:128-n8:16:32:64-S128"
target triple = "x86_64-unknown-linux-gnu"

; core::f64::<impl f64>::to_int_unchecked
; Function Attrs: inlinehint nonlazybind uwtable
define i32 @"_ZN4core3f6421_$LT$impl$u20$f64$GT$16to_int_unchecked17hd34a1e1cb4353ceeE"(double %self) unnamed_addr #0 {
start:
; call <f64 as core::convert::num::FloatToInt<i32>>::to_int_unchecked
  %_0 = call i32 @"_ZN65_$LT$f64$u20$as$u20$core..convert..num..FloatToInt$LT$i32$GT$$GT$16to_int_unchecked17h45974b3b976e12c4E"(double %self) #2
  ret i32 %_0
}

; <f64 as core::convert::num::FloatToInt<i32>>::to_int_unchecked
; Function Attrs: inlinehint nonlazybind uwtable
define internal i32 @"_ZN65_$LT$f64$u20$as$u20$core..convert..num..FloatToInt$LT$i32$GT$$GT$16to_int_unchecked17h45974b3b976e12c4E"(double %self) unnamed_addr #0 {
start:
  %0 = alloca [4 x i8], align 4
  %1 = fptosi double %self to i32
  store i32 %1, ptr %0, align 4
  %_0 = load i32, ptr %0, align 4
  ret i32 %_0
}

; probe1::probe
; Function Attrs: nonlazybind uwtable
define void @_ZN6probe15probe17ha84fcc02d0d1c740E() unnamed_addr #1 {
start:
; call core::f64::<impl f64>::to_int_unchecked
  %_1 = call i32 @"_ZN4core3f6421_$LT$impl$u20$f64$GT$16to_int_unchecked17hd34a1e1cb4353ceeE"(double 1.000000e+00) #2
  ret void
}

attributes #0 = { inlinehint nonlazybind uwtable "probe-stack"="inline-asm" "target-cpu"="x86-64" }
attributes #1 = { nonlazybind uwtable "probe-stack"="inline-asm" "target-cpu"="x86-64" }
attributes #2 = { inlinehint }

!llvm.module.flags = !{!0, !1}
!llvm.ident = !{!2}

!0 = !{i32 8, !"PIC Level", i32 2}
!1 = !{i32 2, !"RtLibUseGOT", i32 1}
!2 = !{!"rustc version 1.95.0 (59807616e 2026-04-14)"}
