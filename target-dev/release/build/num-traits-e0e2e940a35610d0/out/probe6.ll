; ModuleID = 'probe6.b36ee4502f48166d-cgu.0'
source_filename = "probe6.b36ee4502f48166d-cgu.0"
target datalayout = "e-m:e-p270:32:32-p271:32:32-p272:64:64-i64:64-i128:128-f80:128-n8:16:32:64-S128"
target triple = "x86_64-unknown-linux-gnu"

@alloc_f93507f8ba4b5780b14b2c2584609be0 = private unnamed_addr constant [8 x i8] c"\00\00\00\00\00\00\F0?", align 8
@alloc_ef0a1f828f3393ef691f2705e817091c = private unnamed_addr constant [8 x i8] c"\00\00\00\00\00\00\00@", align 8

; core::f64::<impl f64>::total_cmp
; Function Attrs: inlinehint nonlazybind uwtable
define internal i8 @"_ZN4core3f6421_$LT$impl$u20$f64$GT$9total_cmp17h486889d7264fa82fE"(ptr align 8 %self, ptr align 8 %other) unnamed_addr #0 {
start:
  %_6 = alloca [8 x i8], align 8
  %_3 = alloca [8 x i8], align 8
  %_5 = load double, ptr %self, align 8
  %_4 = bitcast double %_5 to i64
  store i64 %_4, ptr %_3, align 8
  %_8 = load double, ptr %other, align 8
  %_7 = bitcast double %_8 to i64
  store i64 %_7, ptr %_6, align 8
  %_13 = load i64, ptr %_3, align 8
  %_12 = ashr i64 %_13, 63
  %_10 = lshr i64 %_12, 1
  %0 = load i64, ptr %_3, align 8
  %1 = xor i64 %0, %_10
  store i64 %1, ptr %_3, align 8
  %_18 = load i64, ptr %_6, align 8
  %_17 = ashr i64 %_18, 63
  %_15 = lshr i64 %_17, 1
  %2 = load i64, ptr %_6, align 8
  %3 = xor i64 %2, %_15
  store i64 %3, ptr %_6, align 8
  %4 = load i64, ptr %_3, align 8
  %5 = load i64, ptr %_6, align 8
  %_0 = call i8 @llvm.scmp.i8.i64(i64 %4, i64 %5)
  ret i8 %_0
}

; probe6::probe
; Function Attrs: nonlazybind uwtable
define void @_ZN6probe65probe17hd4e249c0f2e0ee03E() unnamed_addr #1 {
start:
; call core::f64::<impl f64>::total_cmp
  %_1 = call i8 @"_ZN4core3f6421_$LT$impl$u20$f64$GT$9total_cmp17h486889d7264fa82fE"(ptr align 8 @alloc_f93507f8ba4b5780b14b2c2584609be0, ptr align 8 @alloc_ef0a1f828f3393ef691f2705e817091c) #3
  ret void
}

; Function Attrs: nocallback nocreateundeforpoison nofree nosync nounwind speculatable willreturn memory(none)
declare range(i8 -1, 2) i8 @llvm.scmp.i8.i64(i64, i64) #2

attributes #0 = { inlinehint nonlazybind uwtable "probe-stack"="inline-asm" "target-cpu"="x86-64" }
attributes #1 = { nonlazybind uwtable "probe-stack"="inline-asm" "target-cpu"="x86-64" }
attributes #2 = { nocallback nocreateundeforpoison nofree nosync nounwind speculatable willreturn memory(none) }
attributes #3 = { inlinehint }

!llvm.module.flags = !{!0, !1}
!llvm.ident = !{!2}

!0 = !{i32 8, !"PIC Level", i32 2}
!1 = !{i32 2, !"RtLibUseGOT", i32 1}
!2 = !{!"rustc version 1.95.0 (59807616e 2026-04-14)"}
