; ModuleID = 'probe8.cc11280a64f012aa-cgu.0'
source_filename = "probe8.cc11280a64f012aa-cgu.0"
target datalayout = "e-m:e-p270:32:32-p271:32:32-p272:64:64-i64:64-i128:128-f80:128-n8:16:32:64-S128"
target triple = "x86_64-unknown-linux-gnu"

; core::f64::<impl f64>::to_ne_bytes
; Function Attrs: inlinehint nonlazybind uwtable
define internal i64 @"_ZN4core3f6421_$LT$impl$u20$f64$GT$11to_ne_bytes17hdb118c6f915963f6E"(double %self) unnamed_addr #0 {
start:
  %_0 = alloca [8 x i8], align 1
  store double %self, ptr %_0, align 1
  %0 = load i64, ptr %_0, align 1
  ret i64 %0
}

; probe8::probe
; Function Attrs: nonlazybind uwtable
define void @_ZN6probe85probe17hea4314e294a678c6E() unnamed_addr #1 {
start:
  %0 = alloca [8 x i8], align 8
  %_1 = alloca [8 x i8], align 1
; call core::f64::<impl f64>::to_ne_bytes
  %1 = call i64 @"_ZN4core3f6421_$LT$impl$u20$f64$GT$11to_ne_bytes17hdb118c6f915963f6E"(double 3.140000e+00) #3
  store i64 %1, ptr %0, align 8
  call void @llvm.memcpy.p0.p0.i64(ptr align 1 %_1, ptr align 8 %0, i64 8, i1 false)
  ret void
}

; Function Attrs: nocallback nofree nounwind willreturn memory(argmem: readwrite)
declare void @llvm.memcpy.p0.p0.i64(ptr noalias writeonly captures(none), ptr noalias readonly captures(none), i64, i1 immarg) #2

attributes #0 = { inlinehint nonlazybind uwtable "probe-stack"="inline-asm" "target-cpu"="x86-64" }
attributes #1 = { nonlazybind uwtable "probe-stack"="inline-asm" "target-cpu"="x86-64" }
attributes #2 = { nocallback nofree nounwind willreturn memory(argmem: readwrite) }
attributes #3 = { inlinehint }

!llvm.module.flags = !{!0, !1}
!llvm.ident = !{!2}

!0 = !{i32 8, !"PIC Level", i32 2}
!1 = !{i32 2, !"RtLibUseGOT", i32 1}
!2 = !{!"rustc version 1.95.0 (59807616e 2026-04-14)"}
