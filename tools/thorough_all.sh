#!/bin/bash
# thorough tier of every check on the unchanged tree; evidence archived under /verif/evidence-thorough
cd /verif; export VERIF_EVIDENCE_DIR=/verif/evidence-thorough
for id in ${@:-$(python3 -c "import json;print(' '.join(c['property_id'] for c in json.load(open('MANIFEST.json'))['checks']))")}; do
  s=$(date +%s); out=$(./check $id thorough 2>&1); code=$?; e=$(date +%s)
  echo "$id exit=$code $((e-s))s $(echo "$out" | grep -E '^(OK|VIOLATION|violation|KNOWN|harness)' | cut -c1-200 | tr '\n' ' ')"
done
