#!/bin/bash
# Regression pass: every kept seeded change against the CURRENT /repo HEAD and the CURRENT checks (own property, quick).
# Writes /verif/seeded/<id>/regression.json {head, applies, own_check_exit, class}.  usage: seed_regress.sh [ids...]
cd /verif/seeded || exit 2
head=$(git -C /repo log --format=%h -1)
for d in ${@:-$(ls)}; do
  [ -f $d/patch.diff ] || continue
  pid=${d%%-*}
  out=$(/verif/tools/seed_run.sh /verif/seeded/$d/patch.diff $pid 2>&1 | tail -1)
  if echo "$out" | grep -q "does not apply"; then
    echo "{\"head\": \"$head\", \"applies\": false}" > $d/regression.json; echo "$d does-not-apply"
  else
    code=$(echo "$out" | sed -n 's/.*exit=\([0-9]*\).*/\1/p'); cls=$(echo "$out" | sed -n 's/.*class=\([^ ]*\).*/\1/p')
    echo "{\"head\": \"$head\", \"applies\": true, \"own_check_exit\": ${code:-null}, \"class\": \"$cls\"}" > $d/regression.json; echo "$d exit=$code $cls"
  fi
done
