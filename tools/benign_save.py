#!/usr/bin/env python3
"""Copy the property-PRESERVING changes of the false-alarm round from /tmp/mut/B<nn>.out/<P|Q>/ into /verif/benign/ with
the results of tools/benign_run.sh (/tmp/mut/benign_results*.txt)."""
import json, os, re, shutil, glob
res = {}
for f in sorted(glob.glob('/tmp/mut/benign_results*.txt')):
    cur = None
    for l in open(f):
        if l.startswith('=='):
            cur = l.split()[1]; res[cur] = {}
        elif cur and re.match(r'^C\d\d exit=', l):
            m = re.search(r'class=(\S+)', l)
            res[cur][l.split()[0]] = {'exit': int(l.split('exit=')[1].split()[0]), 'class': m.group(1) if m else None}
for d in sorted(glob.glob('/tmp/mut/B??.out/[PQ]')):
    if not os.path.exists(d + '/patch.diff'):
        continue
    b = d.split('/')[3][:3]; v = d[-1]; pid = 'C' + b[1:]
    dst = f'/verif/benign/{pid}-{v}'
    os.makedirs(dst, exist_ok=True)
    for f in ('patch.diff', 'notes.md'):
        if os.path.exists(f'{d}/{f}'):
            shutil.copy(f'{d}/{f}', f'{dst}/{f}')
    notes = open(f'{d}/notes.md').read() if os.path.exists(f'{d}/notes.md') else ''
    r = res.get(f'{b}/{v}', {})
    meta = {
        'id': f'{pid}-{v}', 'property_that_still_holds': pid,
        'kind': 'P: deep behaviour-preserving refactor of the anchored code' if v == 'P' else 'Q: observable change outside what the property constrains',
        'origin': 'independent sub-agent given only the property text and a scratch worktree of /repo; asked for a change on which the property still HOLDS',
        'what': notes[:1200],
        'what_was_run': 'tools/benign_run.sh: patch applied in an isolated slot, own property check at the full quick budget, related checks with VERIF_RUNS=20000',
        'checks': r,
        'alarms': sorted(k for k, x in r.items() if x['exit'] == 1),
    }
    json.dump(meta, open(dst + '/meta.json', 'w'), indent=1)
    print(dst, 'alarms:', meta['alarms'], 'checks:', len(r))
