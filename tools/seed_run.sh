#!/bin/bash
# Apply a seeded change to /repo, run the given checks (quick), undo the change straight afterwards.
# usage: seed_run.sh <patch.diff> <ID> [<ID>...]      prints "<ID> exit=<code> <first VIOLATION/KNOWN line>"
set -u
P=$1; shift
cd /repo || exit 2
[ -z "$(git status --porcelain)" ] || { echo "/repo not clean"; exit 2; }
git apply "$P" || { echo "patch does not apply"; exit 2; }
trap 'git -C /repo checkout -q -- . ' EXIT
for id in "$@"; do
  out=$(cd /verif && VERIF_NO_EVIDENCE=1 ./check $id quick 2>&1); code=$?
  echo "$id exit=$code $(echo "$out" | grep -E '^(VIOLATION|violation class)' | head -2 | cut -c1-300 | tr '\n' ' ')"
done
