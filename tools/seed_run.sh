#!/bin/bash
# Apply a seeded change to /repo, run checks against it, undo the change straight afterwards.
# usage: seed_run.sh <patch.diff> <own ID> [<other IDs>...]
#   own ID runs at the full quick budget; the others with VERIF_RUNS=20000 (cross-reference only)
# Uses a frozen copy of the simulator sources (VERIF_SIM_DIR) if /tmp/mut/simsnap exists, so that editing /verif/sim
# meanwhile does not disturb a sweep.
set -u
P=$1; shift; OWN=$1
cd /repo || exit 2
[ -z "$(git status --porcelain)" ] || { echo "/repo not clean"; exit 2; }
git apply "$P" 2>/dev/null || { git apply --3way "$P" >/dev/null 2>&1 && [ -z "$(git diff --name-only --diff-filter=U)" ]; } || { git reset -q --hard HEAD; echo "patch does not apply"; exit 2; }
git reset -q 2>/dev/null
trap 'git -C /repo reset -q --hard HEAD' EXIT
if [ -d /tmp/mut/simsnap ]; then export VERIF_SIM_DIR=/tmp/mut/simsnap VERIF_TARGET_DIR=/tmp/mut/simsnap-target; fi
export VERIF_NO_EVIDENCE=1
for id in "$@"; do
  if [ "$id" = "$OWN" ]; then out=$(cd /verif && ./check $id quick 2>&1); else out=$(cd /verif && VERIF_RUNS=20000 ./check $id quick 2>&1); fi
  code=$?
  echo "$id exit=$code $(echo "$out" | grep -E '^(VIOLATION|violation class)' | head -2 | cut -c1-260 | tr '\n' ' ')"
done
