#!/bin/bash
# Isolated sensitivity slot: a scratch worktree of /repo + a copy of the simulator whose path dependencies point at that
# worktree, with its own target directories, so that several seeded changes can be checked in parallel and /repo itself
# is never touched.  Everything lives under /tmp/mut/iso<slot> and is removed by `iso.sh drop <slot>`.
#   iso.sh setup <slot>                      create (or refresh to /repo HEAD + current /verif/sim) and warm-build
#   iso.sh run <slot> <patch.diff> <OWN> [<ID>...]   apply, run checks (own at full quick budget, others VERIF_RUNS=20000), revert
#   iso.sh drop <slot>
set -u
cmd=$1; slot=$2; D=/tmp/mut/iso$slot
envs() {
  export VERIF_SIM_DIR=$D/sim VERIF_TARGET_DIR=$D/target VERIF_REPO_DIR=$D/repo VERIF_PY_TARGET_DIR=$D/target-py VERIF_PYPKG_DIR=$D/pypkg VERIF_NO_EVIDENCE=1
}
case $cmd in
setup)
  mkdir -p $D
  if [ -d $D/repo ]; then git -C $D/repo checkout -q --detach $(git -C /repo rev-parse HEAD) && git -C $D/repo reset -q --hard; else git -C /repo worktree add --detach $D/repo HEAD >/dev/null 2>&1 || exit 2; fi
  rm -rf $D/sim; mkdir -p $D/sim; (cd /verif/sim && tar cf - --exclude=target .) | (cd $D/sim && tar xf -)
  sed -i "s#/repo/crates#$D/repo/crates#g" $D/sim/Cargo.toml
  cp /repo/Cargo.lock $D/sim/Cargo.lock 2>/dev/null
  envs
  (cd /verif && ./check setup) | tail -1
  ;;
run)
  patch=$3; shift 3; OWN=$1
  envs
  cd $D/repo || exit 2
  git reset -q --hard HEAD; git clean -fdq
  git apply "$patch" 2>/dev/null || { git apply --3way "$patch" >/dev/null 2>&1 && [ -z "$(git diff --name-only --diff-filter=U)" ]; } || { git reset -q --hard HEAD; echo "patch does not apply"; exit 2; }
  git reset -q 2>/dev/null
  for id in "$@"; do
    if [ "$id" = "$OWN" ]; then out=$(cd /verif && ./check $id quick 2>&1); else out=$(cd /verif && VERIF_RUNS=20000 ./check $id quick 2>&1); fi
    code=$?
    rp=""
    if [ "$id" = "$OWN" ] && [ $code -eq 1 ]; then
      # the minimised replay file must reproduce the same violation in a fresh process
      f=$(echo "$out" | sed -n 's/^VIOLATION property=[A-Z0-9]* replay=\(.*\)$/\1/p' | head -1)
      if [ -n "$f" ]; then r2=$(cd /verif && ./check replay "$f" 2>&1); rc2=$?; rp="replay_exit=$rc2 replay_ops=$(python3 -c "import json,sys;d=json.load(open('$f'));s=d.get('scenario',d);w=next(iter(s.values())) if isinstance(s,dict) and len(s)==1 else s;print(len(w.get('ops',w.get('steps',[]))) if isinstance(w,dict) else '?')" 2>/dev/null)"; fi
    fi
    echo "$id exit=$code $rp $(echo "$out" | grep -E '^(VIOLATION|violation class|harness error)' | head -2 | cut -c1-260 | tr '\n' ' ')"
  done
  git -C $D/repo reset -q --hard HEAD; git -C $D/repo clean -fdq
  ;;
drop)
  git -C /repo worktree remove --force $D/repo 2>/dev/null
  rm -rf $D
  ;;
esac
