#!/bin/bash
# stop a running sensitivity sweep and restore /repo (never call pkill -f with these names from an interactive command line)
for pat in seed_round.sh seed_all.sh seed_run.sh seed_confirm.sh seed_confirm_py.sh; do
  for p in $(pgrep -f "tools/$pat"); do kill $p 2>/dev/null; done
done
sleep 1
git -C /repo reset -q --hard HEAD
git -C /repo status --short
echo "sweep stopped, /repo at $(git -C /repo log --oneline | head -1)"
