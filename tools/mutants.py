#!/usr/bin/env python3
"""Mechanical mutation sweep: a broad, automatic complement to the independently seeded changes (tools/seed_*.sh).
Every mutant is a one-token / one-statement change of /repo's non-test source.  A mutant that compiles AND passes the
pinned suite is run against the checks related to the file it touches (isolated slots of tools/iso.sh; /repo itself is
never modified).  Survivors are listed for manual triage: either equivalent (behaviour unchanged for every valid
history) or a blind spot of the checks.

  mutants.py gen [file-filter-regex]            -> /tmp/mut/mutants/list.json
  mutants.py run <nslots> [--only <regex>]      -> /tmp/mut/mutants/results.jsonl (resumable)
  mutants.py report                             -> summary + survivors
"""
import json, os, re, subprocess, sys, threading, queue, hashlib

ROOT = '/tmp/mut/mutants'
FILES = {
    'crates/order_book/src/orderbook.rs': 'C01 C06 C03 C04 C02 C13 C12 C07 C05 C08 C11 C14',
    'crates/order_book/src/side.rs': 'C01 C02 C06 C05 C07 C12 C13 C03 C04 C08 C11',
    'crates/order_book/src/types.rs': 'C01 C02 C03 C04 C07 C11 C12 C08 C18 C19',
    'crates/order_book/src/market.rs': 'C14 C07 C02 C12 C13 C08 C10 C11',
    'crates/step_sim/src/env.rs': 'C08 C10 C11 C15 C05 C13 C12 C09 C16',
    'crates/step_sim/src/market_env.rs': 'C08 C14 C10 C11 C15 C05 C13 C12 C09 C16',
    'crates/step_sim/src/data.rs': 'C11 C10 C14 C08',
    'crates/step_sim/src/runner.rs': 'C09 C16',
    'crates/step_sim/src/agents/common.rs': 'C16 C17 C09',
    'crates/step_sim/src/agents/mod.rs': 'C16 C20 C09',
    'crates/step_sim/src/agents/momentum_agent.rs': 'C17 C16 C09',
    'crates/step_sim/src/agents/noise_agent.rs': 'C16 C09',
    'crates/step_sim/src/agents/random_agent.rs': 'C16 C09',
    'crates/macros/src/lib.rs': 'C20 C09',
    'rust/src/order_book.rs': 'C18 C19',
    'rust/src/step_sim.rs': 'C18 C19',
    'rust/src/step_sim_numpy.rs': 'C19 C18',
    'rust/src/types.rs': 'C18 C19',
}
SWAPS = [(' < ', ' <= '), (' <= ', ' < '), (' > ', ' >= '), (' >= ', ' > '), (' == ', ' != '), (' != ', ' == '),
         (' + ', ' - '), (' - ', ' + '), (' += ', ' -= '), (' -= ', ' += '), (' && ', ' || '), (' || ', ' && '), (' & ', ' | '), (' | ', ' & '),
         ('.min(', '.max('), ('.max(', '.min('), ('Side::Bid', 'Side::Ask'), ('Side::Ask', 'Side::Bid'),
         ('bid_side', 'ask_side'), ('ask_side', 'bid_side'), ('true', 'false'), ('false', 'true'),
         ('Status::Active', 'Status::New'), ('Status::New', 'Status::Active'), ('Status::Filled', 'Status::Cancelled'),
         ('Status::Cancelled', 'Status::Filled'), ('Status::Rejected', 'Status::Cancelled'), ('.rev()', ''),
         ('.first_key_value()', '.last_key_value()'), ('.last_key_value()', '.first_key_value()'),
         ('match_bid', 'match_ask'), ('match_ask', 'match_bid'), ('get_bid_key', 'get_ask_key'), ('get_ask_key', 'get_bid_key'),
         ('.0', '.1'), ('.1', '.0'), ('bid_vol', 'ask_vol'), ('ask_vol', 'bid_vol'), ('bid_price', 'ask_price'), ('ask_price', 'bid_price'),
         ('saturating_sub', 'saturating_add'), ('wrapping_sub', 'wrapping_add'), ('floor()', 'ceil()'), ('ceil()', 'floor()'),
         ('round_price_up', 'round_price_down'), ('round_price_down', 'round_price_up'), ('.abs()', ''), ('Price::MAX', 'Price::MIN'), ('Nanos::MAX', '0')]


def code_lines(path):
    """(line_no, text) of non-test, non-comment lines"""
    out = []
    lines = open(path).read().split('\n')
    for i, l in enumerate(lines):
        if l.strip().startswith('#[cfg(test)]'):
            break
        s = l.strip()
        if not s or s.startswith('//') or s.startswith('#[') or s.startswith('use ') or s.startswith('pub use '):
            continue
        out.append((i, l))
    return out, lines


def gen(filt):
    muts = []
    for f in FILES:
        if filt and not re.search(filt, f):
            continue
        cl, _ = code_lines('/repo/' + f)
        for i, l in cl:
            code = l.split('//')[0]
            seen = set()

            def add(new, op):
                if new != l and new not in seen:
                    seen.add(new); muts.append({'file': f, 'line': i, 'op': op, 'old': l, 'new': new})
            for a, b in SWAPS:
                start = 0
                while True:
                    k = code.find(a, start)
                    if k < 0:
                        break
                    start = k + len(a)
                    if a in ('.0', '.1') and (k + 2 < len(code) and (code[k + 2].isalnum() or code[k + 2] == '_') or code[k - 1].isdigit()):
                        continue
                    if a in ('true', 'false', 'bid_vol', 'ask_vol', 'bid_price', 'ask_price') and ((k > 0 and (code[k - 1].isalnum() or code[k - 1] == '_')) or (start < len(code) and (code[start].isalnum() or code[start] == '_'))):
                        continue
                    add(l[:k] + b + l[start:], f'{a.strip()}->{b.strip() or "(deleted)"}')
            for m in re.finditer(r'(?<![\w.])([012])(?![\w.])', code):
                for r in {'0': ['1'], '1': ['0', '2'], '2': ['1', '3']}[m.group(1)]:
                    add(l[:m.start()] + r + l[m.end():], f'const {m.group(1)}->{r}')
            s = code.strip()
            if s.endswith(';') and not s.startswith(('let ', 'return', 'pub ', 'const ', 'type ', 'use ', 'break', 'continue', '}')) and s.count('(') == s.count(')') and s.count('{') == s.count('}') and re.match(r'^[A-Za-z_]', s):
                add(re.sub(r'\S.*$', '// (statement deleted)', l, count=1), 'delete-statement')
            if s in ('return;',) or re.match(r'^return\b.*;$', s) and False:
                add(l.replace('return;', '// (return deleted)'), 'delete-return')
            m = re.match(r'^(\s*(?:\} else )?if )(?!let )(.*) \{\s*$', code)
            if m:
                add(f'{m.group(1)}!({m.group(2)}) {{', 'negate-if')
    for n, m in enumerate(muts):
        m['id'] = n
    os.makedirs(ROOT, exist_ok=True)
    json.dump(muts, open(ROOT + '/list.json', 'w'), indent=0)
    print(len(muts), 'mutants')
    by = {}
    for m in muts:
        by[m['file']] = by.get(m['file'], 0) + 1
    for k, v in by.items():
        print(f'  {v:5d} {k}')


def sh(cmd, env=None, timeout=None):
    e = dict(os.environ); e.update(env or {})
    try:
        p = subprocess.run(cmd, shell=True, capture_output=True, text=True, env=e, timeout=timeout)
        return p.returncode, p.stdout + p.stderr
    except subprocess.TimeoutExpired:
        return 124, 'timeout'


def run(nslots, only, runs):
    muts = json.load(open(ROOT + '/list.json'))
    done = set()
    rp = ROOT + '/results.jsonl'
    if os.path.exists(rp):
        for l in open(rp):
            done.add(json.loads(l)['key'])
    q = queue.Queue()
    for m in muts:
        m['key'] = hashlib.sha1((m['file'] + str(m['line']) + m['new']).encode()).hexdigest()[:12]
        if m['key'] in done or (only and not re.search(only, m['file'])):
            continue
        q.put(m)
    print(q.qsize(), 'to run')
    lock = threading.Lock()

    def worker(slot):
        D = f'/tmp/mut/iso{slot}'
        sh(f'/verif/tools/iso.sh setup {slot}')
        envs = {'VERIF_SIM_DIR': D + '/sim', 'VERIF_TARGET_DIR': D + '/target', 'VERIF_REPO_DIR': D + '/repo', 'VERIF_PY_TARGET_DIR': D + '/target-py',
                'VERIF_PYPKG_DIR': D + '/pypkg', 'VERIF_NO_EVIDENCE': '1', 'CARGO_NET_OFFLINE': 'true'}
        while True:
            try:
                m = q.get_nowait()
            except queue.Empty:
                break
            sh(f'git -C {D}/repo reset -q --hard HEAD')
            p = f"{D}/repo/{m['file']}"
            lines = open(p).read().split('\n')
            res = {'key': m['key'], 'id': m['id'], 'file': m['file'], 'line': m['line'] + 1, 'op': m['op'], 'old': m['old'].strip(), 'new': m['new'].strip()}
            if lines[m['line']] != m['old']:
                res['outcome'] = 'stale'
            else:
                lines[m['line']] = m['new']
                open(p, 'w').write('\n'.join(lines))
                # first pass: the 39 pinned unit tests only (the 29 doc-tests take most of the build time; survivors of the checks are
                # re-run against the doc-tests by `mutants.py doctests`); the pinned suite lives in the three library crates; the PyO3 crate has no tests of its
                # own, a mutant there only has to compile (the extension is built by ./check C18 / C19 anyway)
                if m['file'].startswith('rust/'):
                    code, out = sh(f'cd {D}/repo && cargo check -q -p bourse --offline 2>&1 | tail -40', {'CARGO_TARGET_DIR': D + '/target-test', 'CARGO_NET_OFFLINE': 'true'}, timeout=900)
                else:
                    code, out = sh(f'cd {D}/repo && cargo test -q -p bourse-book -p bourse-de -p bourse-macros --lib --tests --no-fail-fast --offline 2>&1 | tail -40', {'CARGO_TARGET_DIR': D + '/target-test', 'CARGO_NET_OFFLINE': 'true'}, timeout=900)
                if 'error: could not compile' in out or 'error[E' in out or re.search(r'^error: ', out, re.M) and 'test failed' not in out:
                    res['outcome'] = 'nocompile'
                elif 'test failed' in out or 'FAILED' in out or code == 124:
                    res['outcome'] = 'suite'
                else:
                    res['outcome'] = 'survived'; res['checks'] = {}
                    for cid in FILES[m['file']].split():
                        e = dict(envs); e['VERIF_RUNS'] = str(runs)
                        code, out = sh(f'cd /verif && ./check {cid} quick', e, timeout=1200)
                        c = re.search(r'class=(\S+)', out)
                        res['checks'][cid] = code
                        if code == 1:
                            res['outcome'] = 'killed'; res['by'] = cid; res['class'] = c.group(1) if c else None
                            break
                        if code == 2:
                            res['outcome'] = 'sim-nocompile' if 'failed to build' in out else 'harness-error'; res['detail'] = out[-400:]
                            break
            sh(f'git -C {D}/repo reset -q --hard HEAD')
            with lock:
                open(rp, 'a').write(json.dumps(res) + '\n')
                print(res['id'], res['file'].split('/')[-1], res['line'], res['op'], '=>', res['outcome'], res.get('by', ''), flush=True)

    ts = [threading.Thread(target=worker, args=(s,)) for s in range(11, 11 + nslots)]
    [t.start() for t in ts]
    [t.join() for t in ts]


def report():
    rs = [json.loads(l) for l in open(ROOT + '/results.jsonl')]
    c = {}
    for r in rs:
        c[r['outcome']] = c.get(r['outcome'], 0) + 1
    print(c)
    by = {}
    for r in rs:
        if r['outcome'] == 'killed':
            by[r['by']] = by.get(r['by'], 0) + 1
    print('killed by:', dict(sorted(by.items())))
    for r in rs:
        if r['outcome'] in ('survived', 'harness-error'):
            print(f"{r['outcome'].upper()} #{r['id']} {r['file']}:{r['line']} [{r['op']}]\n    - {r['old']}\n    + {r['new']}")


def doctests():
    """classify the survivors: does the full pinned suite (doc-tests included) pass with the mutant?"""
    muts = {m['id']: m for m in json.load(open(ROOT + '/list.json'))}
    rs = [json.loads(l) for l in open(ROOT + '/results.jsonl')]
    D = '/tmp/mut/iso11'
    sh('/verif/tools/iso.sh setup 11')
    out = []
    for r in rs:
        if r['outcome'] != 'survived' or r['file'].startswith('rust/'):
            continue
        m = muts[r['id']]
        sh(f'git -C {D}/repo reset -q --hard HEAD')
        p = f"{D}/repo/{m['file']}"
        lines = open(p).read().split('\n')
        lines[m['line']] = m['new']
        open(p, 'w').write('\n'.join(lines))
        code, o = sh(f'cd {D}/repo && cargo test -q -p bourse-book -p bourse-de -p bourse-macros --doc --offline 2>&1 | tail -20', {'CARGO_TARGET_DIR': D + '/target-test', 'CARGO_NET_OFFLINE': 'true'}, timeout=1800)
        r['doctests'] = 'fail' if ('FAILED' in o or 'test failed' in o or 'error' in o) else 'pass'
        print(r['id'], r['file'], r['line'], r['op'], 'doctests', r['doctests'], flush=True)
        out.append(r)
    sh(f'git -C {D}/repo reset -q --hard HEAD')
    json.dump(out, open(ROOT + '/survivors.json', 'w'), indent=1)


if __name__ == '__main__':
    a = sys.argv[1:]
    if a[0] == 'doctests':
        doctests()
        sys.exit(0)
    if a[0] == 'gen':
        gen(a[1] if len(a) > 1 else None)
    elif a[0] == 'run':
        only = a[a.index('--only') + 1] if '--only' in a else None
        runs = int(a[a.index('--runs') + 1]) if '--runs' in a else 30000
        run(int(a[1]), only, runs)
    else:
        report()
