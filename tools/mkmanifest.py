#!/usr/bin/env python3
"""Regenerate /verif/MANIFEST.json from the table below (single source of truth for the interface)."""
import json, subprocess
props = [json.loads(l) for l in open('/verif/properties.jsonl')]
ids = [p['id'] for p in props]

NOTE_COMMON = ("Trusted base: the harness itself (reference engine, monitors, generators), rustc, and the validity rules of the "
               "property as enforced by the generators. Real bourse code runs unmodified; the only hook is the read-only cargo feature `verif` (queued-instruction accessors, see hooks). Sampling: a clean batch is evidence, not proof.")

C = {}
def claim(pid, text, note, technique, ref):
    C[pid] = dict(text=text, note=note, technique=technique, ref=ref)

claim("C01", "Seeded search over operation histories on the real OrderBook<L>; after every operation the complete observation (orders, trades, every market-data view) must equal that of an executable reference matching engine; a final drain probe turns hidden queue order into trade order. Exploration is the right level: the property quantifies over unbounded histories and a mismatch is decided exactly on each explored history.",
      NOTE_COMMON, "deterministic simulation: seeded histories + clock faults, refinement against an executable reference engine", "DESIGN.md §4 C01")
claim("C02", "Seeded search over histories incl. modifications, trading halts and crash-restarts through JSON; every published view is recomputed from get_orders() alone after every operation (no reference model), mid-price and the non-crossing clause included.",
      NOTE_COMMON, "deterministic simulation: invariant monitoring by independent recomputation under halt / restart faults", "DESIGN.md §4 C02")
claim("C03", "Seeded search; a model-free ledger audit runs after every operation: log prefix immutable, every new record checked field by field against both counterparties, per-order volume reconciled with the fills logged in that operation, cumulative counter equals the sum since the last reset.",
      NOTE_COMMON, "deterministic simulation: ledger audit over the recorded history (conservation / exactly-once)", "DESIGN.md §4 C03")
claim("C04", "Seeded search with a heavy share of duplicated and stale requests and crash-restarts through JSON (the restart itself is checked as a no-op); per-order transition relation checked between consecutive observations and complete-snapshot equality around every redundant request.",
      NOTE_COMMON, "deterministic simulation: duplicate / stale request injection, lifecycle monitor + snapshot equality", "DESIGN.md §4 C04")
claim("C06", "Seeded search over populated queues and every modify shape; refinement against the reference engine (reduce-in-place vs remove-and-re-enter, < vs <= at equal volume) plus model-free identity checks, drain probe reveals the queue order.",
      NOTE_COMMON, "deterministic simulation: refinement against reference engine, drain probe", "DESIGN.md §4 C06")
claim("C12", "Fault injection of invalid creation / re-price requests at random points of histories through OrderBook and Market; Ok <=> on grid, complete-snapshot equality around every rejection, dense next id, all resting prices on the grid after every operation, per-level data accounts for resting volume.",
      NOTE_COMMON + " A fifth of the runs go through Env / MarketEnv (W3 world). Both ends of the price domain appear as creation requests; a buy at 0 and a sell at 2^32-1 (on a grid that contains it) are also placed and rest, and 2^32-1 appears as an off-grid re-price request.", "deterministic simulation: invalid-request fault injection with snapshot comparison", "DESIGN.md §4 C12")
claim("C13", "Seeded search with the trading switch toggled at arbitrary points (halt = partition, resume = heal), redundant requests and the switch of a single asset's book through Market::get_order_book_mut included; refinement against the reference engine carrying the flag plus model-free clauses (no trade while halted, rejected market orders leave the book untouched, a toggle alone changes nothing).",
      NOTE_COMMON, "deterministic simulation: halt/resume fault injection, refinement + invariants", "DESIGN.md §4 C13")

import importlib.util, os
extra = '/verif/tools/manifest_extra.py'
if os.path.exists(extra):
    spec = importlib.util.spec_from_file_location('extra', extra); m = importlib.util.module_from_spec(spec); spec.loader.exec_module(m); m.add(claim, NOTE_COMMON)

NA = {}
def na(pid, reason): NA[pid] = reason
if os.path.exists(extra) and hasattr(m, 'na'): m.na(na)

checks = []
for pid in ids:
    if pid in C:
        c = C[pid]
        checks.append({
            "property_id": pid,
            "quick_cmd": f"./check {pid} quick",
            "thorough_cmd": f"./check {pid} thorough",
            "evidence_file": f"/verif/evidence/{pid}.json",
            "replay_cmd_template": "./check replay {path}",
            "engine": "bourse-dst",
            "level_claimed": {"category": "exploration", "text": c['text'], "design_ref": c['ref']},
            "level_note": c['note'],
            "technique": c['technique'],
        })
not_app = [{"property_id": pid, "reason": NA.get(pid, "check under construction in this session (simulator world not finished yet); not claimed until it exists")} for pid in ids if pid not in C]
man = {
    "version": 1,
    "setup_cmd": "./check setup",
    "hooks": {
        "guard": "cargo feature `verif` of the crate bourse-de (crates/step_sim), off by default",
        "enable": "the simulator depends on bourse-de with features = [\"verif\"] (sim/Cargo.toml); the feature only adds the read-only accessors Env::verif_queued / MarketEnv::verif_queued (queued instructions). Every other seam (generator passed to step/update, set_time, JSON snapshots, Result from create_order, trading switch) already exists in the shipped API; checks link /repo's crates by path",
        "baseline_off_cmd": "cd /repo && cargo test --workspace --no-fail-fast --offline",
        "source_commits": ["8262581f2177e50de660dbccda7e88ba2d220986"],
        "add_only": True,
    },
    "engines": [{"name": "bourse-dst", "path": "sim", "serves_properties": [c['property_id'] for c in checks],
                 "kind_free_text": "seeded deterministic simulator with fault injection (Rust); links /repo/crates/* by path so every check rebuilds from /repo's working tree"}],
    "checks": checks,
    "not_applicable": not_app,
    "notes": "VERIF_SEED (default 20260929) decides every run; VERIF_WORKERS (default 16) does not influence results. Exit 2 = harness error. Genuine defects repaired in /repo: see known_findings.json ('fixed' entries) and DESIGN.md §6.",
}
json.dump(man, open('/verif/MANIFEST.json', 'w'), indent=1)
print("claimed", [c['property_id'] for c in checks]); print("not claimed", [x['property_id'] for x in not_app])
