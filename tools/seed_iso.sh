#!/bin/bash
# Round-3 pipeline for one sub-agent change: confirm it in its scratch worktree (demo passes without / fails with / suite
# passes with), then run the own + related checks against it in an isolated slot (never /repo).
# usage: seed_iso.sh <slot> <ID> <V>      appends to /tmp/mut/results6.txt in the format tools/seed_save.py reads
declare -A REL=( [C01]="C05 C06 C07" [C02]="C07 C12 C13" [C03]="C07 C11" [C04]="C08 C13" [C05]="C08 C01" [C06]="C13 C07" [C07]="C02 C03" [C08]="C14 C05 C10" [C09]="C16" [C10]="C11 C14 C08" [C11]="C10 C02 C03" [C12]="C02 C10" [C13]="C08 C04" [C14]="C08 C10 C11" [C15]="C08" [C16]="C09 C17" [C17]="C16" [C18]="C19" [C19]="C18 C11" [C20]="C09" )
slot=$1; id=$2; v=$3; O=/tmp/mut/$id.out/$v
[ -f $O/patch.diff ] || { echo "no patch $O"; exit 2; }
(
  flock 9
  if [ -f $O/CONFIRMED ]; then c=$(cat $O/CONFIRMED); else
    if ls $O/demo_*.py >/dev/null 2>&1; then c=$(/verif/tools/seed_confirm_py.sh $id $v | tail -2 | tr '\n' ' '); else c=$(/verif/tools/seed_confirm.sh $id $v | tail -2 | tr '\n' ' '); fi
    echo "$c" | grep -q " CONFIRMED" && echo "$c" > $O/CONFIRMED
  fi
  echo "$c" > $O/confirm.txt
) 9>/tmp/mut/confirm.lock
c=$(cat $O/confirm.txt)
[ -d /tmp/mut/iso$slot/repo ] || /verif/tools/iso.sh setup $slot >/dev/null 2>&1
out=$(/verif/tools/iso.sh run $slot $O/patch.diff $id ${REL[$id]} 2>&1)
( flock 9; echo "== $id/$v :: $c" >> /tmp/mut/results6.txt; echo "$out" >> /tmp/mut/results6.txt ) 9>/tmp/mut/results.lock
echo "== $id/$v :: $c"; echo "$out"
