#!/bin/bash
# Run the own + related checks (plus a fixed extra list) against a property-PRESERVING change from a sub-agent; any exit 1 is a
# candidate false alarm to triage.   usage: benign_run.sh <slot> <Bnn> <P|Q> [extra ids...]
declare -A REL=( [C01]="C05 C06 C07" [C02]="C07 C12 C13" [C03]="C07 C11" [C04]="C08 C13" [C05]="C08 C01 C07" [C06]="C13 C07 C01" [C07]="C02 C03 C01" [C08]="C14 C05 C10 C15" [C09]="C16 C15" [C10]="C11 C14 C08" [C11]="C10 C02 C03" [C12]="C02 C10 C01" [C13]="C08 C04 C01" [C14]="C08 C10 C11" [C15]="C08 C09 C05" [C16]="C09 C17" [C17]="C16 C09" [C18]="C19 C07" [C19]="C18 C11" [C20]="C09 C16" )
slot=$1; b=$2; v=$3; shift 3; id=C${b#B}
[ -d /tmp/mut/iso$slot/repo ] || /verif/tools/iso.sh setup $slot >/dev/null 2>&1
out=$(/verif/tools/iso.sh run $slot /tmp/mut/$b.out/$v/patch.diff $id ${REL[$id]} "$@" 2>&1)
( flock 9; echo "== $b/$v"; echo "$out" ) 9>/tmp/mut/benign.lock >> ${BENIGN_OUT:-/tmp/mut/benign_results.txt}
