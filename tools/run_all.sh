#!/bin/bash
# run every claimed check once (quick) on the unchanged tree and validate manifest + evidence
cd /verif; rc=0
for id in $(python3 -c "import json;print(' '.join(c['property_id'] for c in json.load(open('MANIFEST.json'))['checks']))"); do
  s=$(date +%s); out=$(./check $id ${1:-quick} 2>&1); code=$?; e=$(date +%s)
  echo "$id exit=$code $((e-s))s $(echo "$out" | grep -E '^(OK|VIOLATION|KNOWN)' | cut -c1-160 | tr '\n' ' ')"
  [ $code -eq 0 ] || rc=1
done
python3-vt tools/validate.py || rc=1
exit $rc
