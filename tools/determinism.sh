#!/bin/bash
# Determinism self-check of the harness: every check, several VERIF_SEED values, each run twice at 1 and at 16 workers in
# separate processes; the per-run event logs (run index, end digest, ops, digest of all state digests / probes / faults,
# violation) must be byte-identical.  usage: determinism.sh [runs-per-check] [ids...]
cd /verif; N=${1:-3000}; shift
IDS=${@:-$(python3 -c "import json;print(' '.join(c['property_id'] for c in json.load(open('MANIFEST.json'))['checks']))")}
mkdir -p /verif/run/det; rc=0
./check setup >/dev/null || exit 2
for id in $IDS; do
  for seed in 1 77 20260929; do
    ref=""
    for w in 16 1 16; do
      f=/verif/run/det/$id.$seed.$w.$RANDOM.log
      VERIF_NO_EVIDENCE=1 VERIF_RUNS=$N VERIF_SEED=$seed VERIF_WORKERS=$w VERIF_EVENT_LOG=$f /verif/target/release/bourse-dst check $id quick >/dev/null 2>&1
      if [ -z "$ref" ]; then ref=$f; else cmp -s $ref $f || { echo "NONDETERMINISTIC harness: $id seed=$seed workers=$w ($ref vs $f)"; rc=1; }; fi
    done
  done
  echo "$id deterministic over seeds {1,77,20260929} x workers {16,1,16} x $N runs: $([ $rc -eq 0 ] && echo yes || echo NO)"
done
[ $rc -eq 0 ] && rm -rf /verif/run/det
exit $rc
