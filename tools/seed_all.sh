#!/bin/bash
# usage: seed_all.sh "<ID list>" "<checks to run against each>"   -> appends to /tmp/mut/results.txt
for id in $1; do for v in A B; do
  [ -f /tmp/mut/$id.out/$v/patch.diff ] || continue
  c=$(/verif/tools/seed_confirm.sh $id $v | tail -2 | tr '\n' ' ')
  echo "== $id/$v :: $c" >> /tmp/mut/results.txt
  /verif/tools/seed_run.sh /tmp/mut/$id.out/$v/patch.diff $2 >> /tmp/mut/results.txt 2>&1
done; done
echo "DONE $1" >> /tmp/mut/results.txt
