#!/bin/bash
# usage: seed_all.sh "<ID list>" "<all checks>"   -> appends to /tmp/mut/results.txt
for id in $1; do for v in A B C D E F; do
  [ -f /tmp/mut/$id.out/$v/patch.diff ] || continue
  if [ -f /tmp/mut/$id.out/$v/CONFIRMED ]; then c=$(cat /tmp/mut/$id.out/$v/CONFIRMED); else
    if ls /tmp/mut/$id.out/$v/demo_*.py >/dev/null 2>&1; then c=$(/verif/tools/seed_confirm_py.sh $id $v | tail -2 | tr '\n' ' '); else c=$(/verif/tools/seed_confirm.sh $id $v | tail -2 | tr '\n' ' '); fi; echo "$c" | grep -q " CONFIRMED" && echo "$c" > /tmp/mut/$id.out/$v/CONFIRMED; fi
  echo "== $id/$v :: $c" >> /tmp/mut/results.txt
  others=$(echo $2 | tr ' ' '\n' | grep -v "^$id$" | tr '\n' ' ')
  /verif/tools/seed_run.sh /tmp/mut/$id.out/$v/patch.diff $id $others >> /tmp/mut/results.txt 2>&1
done; done
echo "DONE $1" >> /tmp/mut/results.txt
