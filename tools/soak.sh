#!/bin/bash
# Soak: run every check at several VERIF_SEED values against a snapshot of /repo's HEAD, report anything that is not exit 0.
# Meant for `vp run --with-repo -- tools/soak.sh <tier> <seed>...` (works in the snapshot directory it is started in).
# No evidence is written; findings worth keeping must be re-run in /verif.
tier=${1:-quick}; shift
seeds=${@:-"1 2 3 5 8 13 21 34"}
here=$(pwd)
repo=${VP_RUN_REPO:-/repo}
export CARGO_NET_OFFLINE=true VERIF_NO_EVIDENCE=1
export VERIF_SIM_DIR=$here/sim VERIF_TARGET_DIR=$here/target-soak VERIF_REPO_DIR=$repo VERIF_PY_TARGET_DIR=$here/target-soak-py VERIF_PYPKG_DIR=$here/pypkg-soak
sed -i "s#\"/repo/#\"$repo/#g" sim/Cargo.toml
[ -f sim/Cargo.lock ] || cp $repo/Cargo.lock sim/Cargo.lock
ids=$(python3 -c "import json;print(' '.join(c['property_id'] for c in json.load(open('MANIFEST.json'))['checks']))")
bad=0
for seed in $seeds; do
  for id in $ids; do
    s=$(date +%s)
    out=$(VERIF_SEED=$seed sh $here/check $id $tier 2>&1); code=$?
    e=$(date +%s)
    echo "seed=$seed $id exit=$code $((e-s))s $(echo "$out" | grep -E '^(OK|VIOLATION|violation class|harness)' | cut -c1-300 | tr '\n' ' ')"
    [ $code -eq 0 ] || bad=$((bad+1))
  done
done
echo "SOAK DONE tier=$tier seeds=[$seeds] non-zero exits: $bad"
