#!/usr/bin/env python3
"""Copy confirmed seeded changes from /tmp/mut/<ID>.out/<V>/ into /verif/seeded/<ID>-<V>/ with meta.json."""
import json, os, re, shutil, sys, glob
SUMMARY = json.load(open('/verif/tools/seed_summaries.json'))
res = {}
cur = None
for f in sorted(glob.glob('/tmp/mut/results*.txt')):
    for l in open(f):
        if l.startswith('=='):
            cur = l.split()[1]; res.setdefault(cur, {'confirm': l.strip(), 'checks': {}})
            res[cur]['confirm'] = l.strip()
        elif cur and re.match(r'^C\d\d exit=', l):
            pid = l.split()[0]; code = int(l.split('exit=')[1].split()[0])
            m = re.search(r'class=(\S+)', l)
            if code in (0, 1):
                res[cur]['checks'][pid] = {'exit': code, 'class': m.group(1) if m else None}
for key, r in res.items():
    pid, v = key.split('/')
    src = f'/tmp/mut/{pid}.out/{v}'
    if 'CONFIRMED' not in r['confirm'] or 'NOT-CONFIRMED' in r['confirm'] or not os.path.exists(src + '/patch.diff'):
        continue
    dst = f'/verif/seeded/{pid}-{v}'
    os.makedirs(dst, exist_ok=True)
    for f in os.listdir(src):
        if f != 'CONFIRMED':
            shutil.copy(os.path.join(src, f), os.path.join(dst, f))
    notes = open(src + '/notes.md').read() if os.path.exists(src + '/notes.md') else ''
    meta = {
        'id': f'{pid}-{v}',
        'breaks_property': pid,
        'summary': SUMMARY.get(f'{pid}-{v}', ''),
        'origin': 'independent sub-agent given only the property text and a scratch worktree of /repo',
        'needs_to_manifest': notes[:1500],
        'confirmed_by': 'tools/seed_confirm.sh in a scratch worktree outside /repo and /verif: ' + r['confirm'].split('::')[1].strip(),
        'what_was_run': 'tools/seed_run.sh: git -C /repo apply patch.diff; ./check <ID> quick (own property at the full quick budget, others with VERIF_RUNS=20000); git -C /repo checkout -- .',
        'detected_by': {k: c for k, c in sorted(r['checks'].items()) if c['exit'] == 1},
        'not_detected_by': sorted(k for k, c in r['checks'].items() if c['exit'] == 0),
        'caught_by_own_property_check': r['checks'].get(pid, {}).get('exit') == 1,
    }
    if os.path.exists(dst + '/meta.json'):
        old = json.load(open(dst + '/meta.json'))
        if 'history' in old:
            meta['history'] = old['history']; meta['detected_by'].update({k: v for k, v in old['detected_by'].items() if k not in meta['detected_by']}); meta['not_detected_by'] = [x for x in meta['not_detected_by'] if x not in meta['detected_by']]; meta['caught_by_own_property_check'] = old['caught_by_own_property_check'] or meta['caught_by_own_property_check']
    json.dump(meta, open(dst + '/meta.json', 'w'), indent=1)
    print(dst, 'own caught:', meta['caught_by_own_property_check'])
