#!/bin/bash
# per-property related-check lists for a sweep:  seed_round.sh <ID>...
declare -A REL=( [C01]="C05 C06 C07" [C02]="C07 C12 C13" [C03]="C07 C11" [C04]="C08 C13" [C05]="C08 C01" [C06]="C13 C07" [C07]="C02 C03" [C08]="C14 C05 C10" [C09]="C16" [C10]="C11 C14 C08" [C11]="C10 C02 C03" [C12]="C02 C10" [C13]="C08 C04" [C14]="C08 C10 C11" [C15]="C08" [C16]="C09 C17" [C17]="C16" [C18]="C19" [C19]="C18 C11" [C20]="C09" )
for id in "$@"; do /verif/tools/seed_all.sh "$id" "$id ${REL[$id]}"; done
echo "ROUND DONE $*" >> /tmp/mut/results.txt
