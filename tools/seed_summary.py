#!/usr/bin/env python3
import re,sys
cur=None; rows={}
for l in open(sys.argv[1] if len(sys.argv)>1 else '/tmp/mut/results.txt'):
    if l.startswith('=='):
        cur=l.split()[1]; rows[cur]={'conf':' CONFIRMED' in l and 'NOT-CONFIRMED' not in l,'checks':{},'raw':[l.strip()[:160]]}
    elif cur and re.match(r'^C\d\d exit=',l):
        pid=l.split()[0]; code=int(l.split('exit=')[1].split()[0]); m=re.search(r'class=(\S+)',l)
        rows[cur]['checks'][pid]=(code, m.group(1) if m else '')
    elif cur: rows[cur]['raw'].append(l.strip()[:160])
for k,v in rows.items():
    own=k.split('/')[0]
    caught=[p for p,(c,_) in v['checks'].items() if c==1]
    bad=[(p,c) for p,(c,_) in v['checks'].items() if c not in (0,1)]
    print(k, 'confirmed' if v['conf'] else 'NOT-CONF', 'own:',v['checks'].get(own), 'caught by:',','.join(caught), 'errors:',bad, '' if v['conf'] and not bad else v['raw'][:3])
