#!/bin/bash
# Confirm a sub-agent's seeded change in its scratch worktree (outside /repo and /verif):
#   suite passes with the change; demo passes without it; demo fails with it.
# usage: seed_confirm.sh <ID> <A|B>      (reads /tmp/mut/<ID>.out/<A|B>/, worktree /tmp/mut/<ID>)
set -u
ID=$1; V=$2; OUT=/tmp/mut/$ID.out/$V; WT=/tmp/mut/$ID
export CARGO_NET_OFFLINE=true CARGO_TARGET_DIR=/tmp/mut/target-confirm
[ -d "$WT" ] || git -C /repo worktree add --detach "$WT" HEAD >/dev/null 2>&1
cd "$WT" || exit 2
git checkout -q -- . ; git clean -fdq -e target
demo=$(ls "$OUT"/demo_*.rs 2>/dev/null | head -1)
[ -n "$demo" ] || { echo "no rust demo in $OUT"; exit 2; }
dest=$(grep -o 'crates/[A-Za-z_/]*tests/[A-Za-z0-9_]*\.rs' "$OUT/demo_path.txt" | head -1)
[ -n "$dest" ] || { echo "cannot find demo destination"; exit 2; }
pkg=bourse-book; case "$dest" in crates/step_sim/*) pkg=bourse-de;; crates/macros/*) pkg=bourse-macros;; esac
tname=$(basename "$dest" .rs)
mkdir -p "$(dirname "$dest")"; cp "$demo" "$dest"
feat=""; grep -q -- "--features verif" "$OUT/demo_path.txt" && feat="--features verif"
cargo test -q -p $pkg $feat --test "$tname" --offline >/tmp/mut/confirm.log 2>&1; r_clean=$?
git apply "$OUT/patch.diff" 2>/dev/null || { git apply --3way "$OUT/patch.diff" >/dev/null 2>&1 && [ -z "$(git diff --name-only --diff-filter=U)" ]; } || { git reset -q --hard HEAD; echo "patch does not apply"; exit 2; }
git reset -q 2>/dev/null
cargo test -q -p $pkg $feat --test "$tname" --offline >>/tmp/mut/confirm.log 2>&1; r_mut=$?
rm -f "$dest"
cargo test -q --workspace --no-fail-fast --offline >/tmp/mut/confirm_suite.log 2>&1; r_suite=$?
npass=$(grep -h "^test result" /tmp/mut/confirm_suite.log | awk '{s+=$4} END{print s}')
git checkout -q -- . ; git clean -fdq -e target
echo "$ID/$V demo_clean_exit=$r_clean demo_mutant_exit=$r_mut suite_exit=$r_suite suite_passed_total=$npass"
[ $r_clean -eq 0 ] && [ $r_mut -ne 0 ] && [ $r_suite -eq 0 ] && echo CONFIRMED || echo NOT-CONFIRMED
