#!/usr/bin/env python3
"""Parallel regression pass over the kept seeded changes, in isolated slots (tools/iso.sh), never touching /repo.
usage: iso_regress.py <nslots> [--related] [ids...]
For every /verif/seeded/<id>/patch.diff: apply in a slot, run the own property's quick check (full budget) and, with
--related, the related checks (VERIF_RUNS=20000); write seeded/<id>/regression.json and refresh meta.json's
detected_by / not_detected_by / caught_by_own_property_check (history kept)."""
import json, os, re, subprocess, sys, threading, queue, glob
REL = {"C01": "C05 C06 C07", "C02": "C07 C12 C13", "C03": "C07 C11", "C04": "C08 C13", "C05": "C08 C01", "C06": "C13 C07",
       "C07": "C02 C03", "C08": "C14 C05 C10", "C09": "C16", "C10": "C11 C14 C08", "C11": "C10 C02 C03", "C12": "C02 C10",
       "C13": "C08 C04", "C14": "C08 C10 C11", "C15": "C08", "C16": "C09 C17", "C17": "C16", "C18": "C19", "C19": "C18 C11", "C20": "C09"}
args = sys.argv[1:]
nslots = int(args.pop(0))
related = '--related' in args
args = [a for a in args if a != '--related']
ids = args or sorted(os.path.basename(os.path.dirname(p)) for p in glob.glob('/verif/seeded/*/patch.diff'))
head = subprocess.check_output(['git', '-C', '/repo', 'log', '--format=%h', '-1'], text=True).strip()
q = queue.Queue()
for i in ids:
    q.put(i)
lock = threading.Lock()

def worker(slot):
    subprocess.run(['/verif/tools/iso.sh', 'setup', str(slot)], stdout=subprocess.DEVNULL, stderr=subprocess.DEVNULL)
    while True:
        try:
            sid = q.get_nowait()
        except queue.Empty:
            break
        pid = sid.split('-')[0]
        checks = [pid] + (REL[pid].split() if related else [])
        out = subprocess.run(['/verif/tools/iso.sh', 'run', str(slot), f'/verif/seeded/{sid}/patch.diff'] + checks, capture_output=True, text=True).stdout
        res = {}
        applies = 'does not apply' not in out
        for l in out.splitlines():
            m = re.match(r'^(C\d\d) exit=(\d+)(.*)', l)
            if m:
                c = re.search(r'class=(\S+)', m.group(3))
                res[m.group(1)] = {'exit': int(m.group(2)), 'class': c.group(1) if c else None}
                rp = re.search(r'replay_exit=(\d+) replay_ops=(\S+)', m.group(3))
                if rp:
                    res[m.group(1)]['replay_exit'] = int(rp.group(1)); res[m.group(1)]['replay_ops'] = rp.group(2)
        d = f'/verif/seeded/{sid}'
        json.dump({'head': head, 'applies': applies, 'checks': res}, open(d + '/regression.json', 'w'), indent=1)
        mp = d + '/meta.json'
        if applies and os.path.exists(mp) and res:
            m = json.load(open(mp))
            det = m.get('detected_by', {}); nd = set(m.get('not_detected_by', []))
            for k, r in res.items():
                if r['exit'] == 1:
                    det[k] = {kk: vv for kk, vv in r.items()}; nd.discard(k)
                elif r['exit'] == 0:
                    det.pop(k, None); nd.add(k)
            m['detected_by'] = dict(sorted(det.items())); m['not_detected_by'] = sorted(nd)
            m['caught_by_own_property_check'] = pid in det
            m['last_regression_head'] = head
            json.dump(m, open(mp, 'w'), indent=1)
        with lock:
            print(sid, 'applies' if applies else 'DOES-NOT-APPLY', ' '.join(f"{k}={r['exit']}" + (f"({r['class']})" if r['exit'] == 1 else '') for k, r in res.items()), flush=True)

ts = [threading.Thread(target=worker, args=(s,)) for s in range(1, nslots + 1)]
[t.start() for t in ts]
[t.join() for t in ts]
