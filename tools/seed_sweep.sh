#!/bin/bash
# Confirm + check a list of fresh sub-agent changes over N isolated slots in parallel.
# usage: seed_sweep.sh <nslots> <ID>/<V> ...        (results appended to /tmp/mut/results6.txt by seed_iso.sh)
n=$1; shift
i=0
for x in "$@"; do echo "$((i % n + 2)) ${x%%/*} ${x##*/}"; i=$((i+1)); done > /tmp/mut/sweep.$$.list
for s in $(seq 2 $((n+1))); do
  ( grep "^$s " /tmp/mut/sweep.$$.list | while read slot id v; do /verif/tools/seed_iso.sh $slot $id $v > /tmp/mut/sweep.$id.$v.log 2>&1; done ) &
done
wait
rm -f /tmp/mut/sweep.$$.list
echo "SWEEP DONE $*"
