#!/usr/bin/env python3
"""Rewrite the table between the SEEDED-TABLE markers of DESIGN.md from seeded/*/meta.json."""
import json, glob, re
rows = []
for f in sorted(glob.glob('/verif/seeded/*/meta.json')):
    m = json.load(open(f))
    notes = m.get('summary') or ''
    det = ', '.join(f"{k} ({v['class']})" if k == m['breaks_property'] else k for k, v in sorted(m['detected_by'].items()))
    own = 'yes' if m['caught_by_own_property_check'] else '**no**'
    if not m['caught_by_own_property_check']:
        if m.get('caught_by_thorough'):
            own += ' (thorough tier: yes)'
        elif m.get('effective_property'):
            own += f" (effective property {m['effective_property']})"
        elif not m['detected_by']:
            own += ' (outside the valid inputs)'
    rows.append(f"| {m['id']} | {notes} | {own} | {det} | {', '.join(m['not_detected_by'])} |")
table = "| change | what it does / what it needs to manifest | caught by its property's quick check | reported by (own check: violation class) | checks run that stayed quiet |\n|---|---|---|---|---|\n" + "\n".join(rows)
p = '/verif/DESIGN.md'; s = open(p).read()
b, e = '<!-- SEEDED-TABLE-BEGIN -->', '<!-- SEEDED-TABLE-END -->'
if b not in s:
    s += f"\n{b}\n{e}\n"
s = re.sub(re.escape(b) + '.*?' + re.escape(e), lambda _: b + "\n" + table + "\n" + e, s, flags=re.S)
open(p, 'w').write(s)
print(len(rows), "rows")
