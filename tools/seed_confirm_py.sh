#!/bin/bash
# Confirm a seeded change whose demonstration is a Python script (C18 / C19), in a scratch worktree outside /repo and /verif.
# usage: seed_confirm_py.sh <ID> <A|B>
set -u
ID=$1; V=$2; OUT=/tmp/mut/$ID.out/$V; WT=/tmp/mut/$ID
export CARGO_NET_OFFLINE=true CARGO_TARGET_DIR=/tmp/mut/target-confirm
[ -d "$WT" ] || git -C /repo worktree add --detach "$WT" HEAD >/dev/null 2>&1
cd "$WT" || exit 2
git checkout -q -- . ; git clean -fdq -e target
demo=$(ls "$OUT"/demo_*.py 2>/dev/null | head -1)
[ -n "$demo" ] || { echo "no python demo in $OUT"; exit 2; }
stubs=/tmp/mut/$ID.out/stubs; [ -d "$stubs" ] || stubs=$OUT/stubs
build_pkg() {
  cargo build -q -p bourse --release --offline >>/tmp/mut/confirm.log 2>&1 || return 1
  rm -rf /tmp/mut/confirm-pypkg; mkdir -p /tmp/mut/confirm-pypkg; cp -r src/bourse /tmp/mut/confirm-pypkg/bourse
  cp $CARGO_TARGET_DIR/release/libbourse.so /tmp/mut/confirm-pypkg/bourse/core.so
}
: > /tmp/mut/confirm.log
build_pkg || { echo "extension build failed (clean)"; exit 2; }
(cd "$OUT" && PYTHONPATH=/tmp/mut/confirm-pypkg:$stubs python3-vt "$demo" >>/tmp/mut/confirm.log 2>&1); r_clean=$?
git apply "$OUT/patch.diff" 2>/dev/null || { git apply --3way "$OUT/patch.diff" >/dev/null 2>&1 && [ -z "$(git diff --name-only --diff-filter=U)" ]; } || { git reset -q --hard HEAD; echo "patch does not apply"; exit 2; }
git reset -q 2>/dev/null
build_pkg || { echo "extension build failed (mutant)"; exit 2; }
(cd "$OUT" && PYTHONPATH=/tmp/mut/confirm-pypkg:$stubs python3-vt "$demo" >>/tmp/mut/confirm.log 2>&1); r_mut=$?
cargo test -q --workspace --no-fail-fast --offline >/tmp/mut/confirm_suite.log 2>&1; r_suite=$?
npass=$(grep -h "^test result" /tmp/mut/confirm_suite.log | awk '{s+=$4} END{print s}')
git checkout -q -- . ; git clean -fdq -e target; rm -rf /tmp/mut/confirm-pypkg
echo "$ID/$V demo_clean_exit=$r_clean demo_mutant_exit=$r_mut suite_exit=$r_suite suite_passed_total=$npass"
[ $r_clean -eq 0 ] && [ $r_mut -ne 0 ] && [ $r_suite -eq 0 ] && echo CONFIRMED || echo NOT-CONFIRMED
